#!/bin/sh
# runs every seeded change against the check(s) named in its meta (first argument list) and prints a table
cd /verif
for pair in C01a:C07 C01a:C01 C02a:C02 C02a:C05 C03a:C03 C04a:C04 C05a:C05 C06a:C06 C07a:C07 C08a:C08 C09a:C09 C09a:C19 C10a:C10 C11a:C11 C12a:C12 C13a:C13 C14a:C14 C15a:C15 C16a:C17 C16a:C16 C17a:C17 C18a:C18 C19a:C19 C20a:C20 C01b:C01 C02b:C02 C03b:C03 C04b:C04 C05b:C05 C06b:C06 C07b:C07 C08b:C08 C09b:C09 C10b:C10 C11b:C11 C12b:C12 C13b:C13 C14b:C14 C15b:C15 C16b:C16 C17b:C17 C18b:C18 C19b:C19 C20b:C20 C20b:C10 C01c:C01 C02c:C02 C03c:C03 C04c:C04 C05c:C05 C06c:C06 C07c:C07 C08c:C08 C09c:C09 C10c:C10 C11c:C11 C12c:C12 C13c:C13 C14c:C14 C15c:C15 C16c:C16 C17c:C17 C18c:C18 C19c:C19 C20c:C20; do
  s=${pair%%:*}; p=${pair##*:}
  N=1 ${SEED_RUNNER:-tools/try_seed.sh} $s $p ${1:-quick} 2>&1 | tr '\n' ' ' | cut -c1-230; echo
done
