#!/usr/bin/env python3
"""Rewrites the 'quick size / time' column of the table in DESIGN.md section 10.2 from evidence/*.json (run after tools/run_all.sh quick)."""
import json, os, re
ROOT = os.path.dirname(os.path.dirname(os.path.abspath(__file__)))
p = os.path.join(ROOT, "DESIGN.md")
s = open(p).read()
times = {}
log = os.path.join(ROOT, "scratch", "quick_final.log")
if os.path.exists(log):
    for line in open(log):
        m = re.match(r"(C\d\d) rc=\d+ (\d+)s", line)
        if m:
            times[m.group(1)] = int(m.group(2))
def k(n):
    return "%.0f k" % (n / 1000.0) if n >= 10000 else ("%.1f k" % (n / 1000.0) if n >= 1000 else str(n))
for i in range(1, 21):
    pid = "C%02d" % i
    e = json.load(open(os.path.join(ROOT, "evidence", pid + ".json")))
    if e.get("tier") != "quick":
        continue
    c = e["coverage"]
    t = times.get(pid, round(e.get("wall_s", 0)))
    if "states" in c:
        txt = "%s jobs, %s paths, %s s" % (c.get("jobs"), k(c["states"]), t)
    else:
        extra = []
        for key in ("version_selection", "leader", "grow", "producer_rr"):
            if key in c:
                extra.append("%s engine-B paths" % k(c[key].get("paths", 0)))
        if "engine_c" in c:
            extra.append("%s lemmas" % c["engine_c"].get("obligations"))
        txt = "%s obligations%s, %s s" % (c.get("obligations"), (" + " + " + ".join(extra)) if extra else "", t)
    rx = re.compile(r"^(\| %s \| [^|]*\| [^|]*\| )[^|]*(\| [^|]*\|)$" % pid, re.M)
    s, n = rx.subn(lambda m: m.group(1) + txt + " " + m.group(2), s, count=1)
    if n != 1:
        print("row not found", pid)
open(p, "w").write(s)
print("table refreshed")
