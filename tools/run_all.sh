#!/bin/sh
# usage: tools/run_all.sh [quick|thorough]  -- runs every check once, prints verdict and wall time
T=${1:-quick}
cd "$(dirname "$0")/.."
for p in C01 C02 C03 C04 C05 C06 C07 C08 C09 C10 C11 C12 C13 C14 C15 C16 C17 C18 C19 C20; do
  s=$(date +%s); timeout ${TMO:-3600} ./check $p --tier $T > /tmp/all_$p.out 2>&1; rc=$?; e=$(date +%s)
  echo "$p rc=$rc $((e-s))s $(grep -c KNOWN-FINDING /tmp/all_$p.out) known | $(grep -E 'OK property|VIOLATION|INCONCLUSIVE' /tmp/all_$p.out | head -2 | cut -c1-160 | tr '\n' ' ')"
done
