#!/bin/sh
# usage: mut.sh <ID> <file> <sed-expr>   -- apply a mutant to /repo, run quick check, revert
ID=$1; F=$2; E=$3
cd /repo && sed -i "$E" $F && (git diff --stat | head -3)
if git diff --quiet; then echo "MUTANT DID NOT APPLY"; exit 3; fi
cd /verif && timeout 1200 ./check $ID --tier ${TIER:-quick} 2>&1 | grep -E "VIOLATION|OK property|INCONCLUSIVE|^  label=" | head -${N:-6}
git -C /repo checkout -- . 
