#!/usr/bin/env python3
"""Regenerates MANIFEST.json from the per-property table below (kept here so that the
manifest is always schema-valid and in step with the harness directory)."""
import json
import os

ROOT = os.path.dirname(os.path.dirname(os.path.abspath(__file__)))

TB_B = ("Trusted base: z3 5.1 (Python API); the symrun proxy engine (vlib/symrun, self-tested on every run; every path's "
        "model is replayed on plain int/float values and the event logs compared); Twisted's Clock as reactor; the stand-in "
        "environment named in the evidence file's assumptions. Bounds and what lies outside them are in evidence.coverage.bounds.")

CHECKS = {
    "C02": dict(
        category="model_checking",
        technique="dynamic symbolic execution of the real Consumer with z3 (symbolic offsets/gaps/start, solver-decided branches, symbolic schedule choices), exhaustive within stated bounds",
        text="Bounded symbolic model checking of the real afkak.consumer.Consumer: the partition log's offsets, gaps, start position and "
             "offset replies are z3 integers; reply shapes, processor completions, timers and faults are finite-domain symbolic choices. "
             "Every path of the bounded script is explored; monitors on delivery order, absolute offsets, re-entry, outstanding fetches and "
             "the next fetch offset are solver queries. A counterexample is replayed concretely before it is reported. Unit tests "
             "sample one schedule and one offset layout; here all layouts within the bound are covered.",
        design_ref="DESIGN.md section 4, C02",
        note=TB_B,
    ),
    "C14": dict(
        category="model_checking",
        technique="dynamic symbolic execution of the real Consumer with z3: attempt limit, buffer, max-buffer and message sizes as symbolic integers; failure patterns as symbolic choices",
        text="Bounded symbolic model checking of the real Consumer's retry, offset-reset and buffer-growth code. The attempt limit is a z3 "
             "integer, so the limit comparisons are decided by the solver for every limit in the range; buffer size, maximum and message "
             "size are z3 integers over their whole documented range, so the growth rule (x16 up to 1 MiB, then x2, capped) and the "
             "fail-iff-too-small rule are checked for all sizes, iterated until delivery or failure. Failure/success patterns and the "
             "position of the out-of-range answer are exhaustively explored up to the stated length; back-off delays are compared exactly.",
        design_ref="DESIGN.md section 4, C14",
        note=TB_B,
    ),
    "C03": dict(
        category="model_checking",
        technique="dynamic symbolic execution of the real Consumer commit path with z3: symbolic offsets and coordinator store, symbolic crash point, exhaustive schedules of processor/commit/timer events within bounds",
        text="Bounded symbolic model checking of the real Consumer's commit machinery against a symbolic log and a coordinator offset store. "
             "Processor outcomes (ok / raise / async fail / pending), manual commits, auto-commit by count and by timer, commit replies "
             "(ack, retriable, applied-but-reply-lost, illegal generation, non-Kafka), stop/shutdown and a symbolic crash point followed by a "
             "restart from the committed offset are explored exhaustively up to the script bound; the monitors (commit value = last processed at "
             "issue, commit never beyond the contiguous successfully-processed prefix, one commit outstanding, last-committed only acked/reported "
             "values, resume at committed+1) are solver queries over symbolic offsets.",
        design_ref="DESIGN.md section 4, C03",
        note=TB_B,
    ),
    "C13": dict(
        category="model_checking",
        technique="dynamic symbolic execution of the real Consumer with z3 from a catalogue of reachable states: stop()/shutdown() followed by every order of the outstanding completions (symbolic schedule), symbolic offsets",
        text="Bounded symbolic model checking of stop()/shutdown() on the real Consumer. Eleven reachable states (resolving offsets, fetching, "
             "reply parked, processing sync/async incl. from inside the processor, waiting to retry, manual/automatic commit in flight, commit "
             "in back-off, idle) are built by concrete prefixes; then stop() or shutdown() is called and every ordering of the outstanding "
             "completions (fetch reply/error, processor ok/fail, each commit outcome, timers) up to the suffix bound is explored, followed by a "
             "restart. Monitors: nothing runs after stop returns (processor, requests, delayed calls), start()/shutdown() Deferreds fire exactly "
             "once with the right value, graceful shutdown ends committed == processed, a stopped consumer restarts and delivers.",
        design_ref="DESIGN.md section 4, C13",
        note=TB_B + " Results of start()/shutdown() are compared with last_processed_offset as of the moment the Deferred fires.",
    ),
    "C01": dict(
        category="model_checking",
        technique="dynamic symbolic execution of the real Producer with z3: symbolic attempt limit and ack offsets, symbolic event script (sends, replies with per-payload outcomes, metadata, timers, cancel, stop), exhaustive within bounds",
        text="Bounded symbolic model checking of the real afkak.producer.Producer against a contract client. The attempt limit is a z3 integer "
             "(limit comparisons are solver decisions), acknowledged offsets are z3 integers, and the script of sends, per-payload broker "
             "outcomes (ack, error codes, transport failure, whole-call Kafka/non-Kafka failure, empty result), metadata answers, timers, "
             "cancellations and stop is a sequence of symbolic finite-domain choices explored exhaustively up to the bound, for acks 0/1/-1, "
             "batched or not, gzip or none, both message formats. Monitors: a send succeeds only with an error-free ProduceResponse for the "
             "partition whose leader acknowledged a request carrying exactly its (key,value) sequence; acks 0 succeeds with None only after "
             "hand-over; every other outcome is a Failure; every Deferred fires exactly once.",
        design_ref="DESIGN.md section 4, C01",
        note=TB_B,
    ),
    "C09": dict(
        category="model_checking",
        technique="dynamic symbolic execution of the real Producer with z3: monitor over the sequence of produce requests under symbolic per-attempt outcome matrices and a symbolic attempt limit",
        text="Bounded symbolic model checking of the real Producer's dispatch/retry logic: the monitor observes every send_produce_request call "
             "and checks per-partition submission order within and across batches, one payload per partition and one appearance per message per "
             "attempt, at most one request in flight, acknowledged payloads never re-sent, exactly the failed payloads retried, geometric retry "
             "delays (recomputed with the same float operations) and attempts <= the symbolic limit, over all per-attempt outcome patterns within "
             "the fault budget.",
        design_ref="DESIGN.md section 4, C09",
        note=TB_B,
    ),
    "C19": dict(
        category="model_checking",
        technique="dynamic symbolic execution of the real Producer with z3: batch_every_n and batch_every_b as symbolic integers (threshold tests are solver decisions), symbolic script of sends/cancels/ticks/completions/stop",
        text="Bounded symbolic model checking of the Producer's batching: both thresholds are z3 integers over a range, so _check_send_batch's "
             "comparisons are decided by the solver for all threshold settings; sends of several sizes (incl. null messages), cancellations, "
             "timer ticks, batch completions and stop are explored exhaustively up to the script bound. Monitors: waiting counters equal the "
             "queue contents after every event, an idle producer never sits on a met threshold, no queued message waits beyond one period "
             "while idle, a send cancelled before dispatch is never transmitted, cancel fails the caller at once, stop fails all outstanding "
             "sends and transmits nothing further.",
        design_ref="DESIGN.md section 4, C19",
        note=TB_B + " Reading for stop(): a send whose partition lookup had already failed terminally before stop() reports that routing error rather than a cancellation.",
    ),
    "C05": dict(
        category="other", engine="chplug",
        technique="symbolic execution of the real decoders with CrossHair/z3 (linear struct model): reference-encoded responses and message sets with all integer fields and content bytes symbolic; 'Confirmed over all paths' per shape",
        text="Bounded SMT verification of the real afkak decoders. For each of the response decoders and for the message-set codec a family of "
             "shapes (0..2/3 topics, partitions, members, brokers, replicas, messages; null/empty/short keys, values, metadata) is enumerated; "
             "within a shape every integer field ranges over its full wire width and every content byte is symbolic. An independent reference "
             "encoder builds the bytes, the real decoder runs on them under CrossHair, and the decoded values must equal the inputs on every "
             "path ('Confirmed over all paths', reachability twin refuted). Direction 2 checks decode(encode(ms)) == ms incl. Message.__eq__, and "
             "the absolute-offset rule for inner messages of compressed wrappers of both message formats to depth 2. This is not a proof: each "
             "claim carries the size bound stated in the evidence.",
        design_ref="DESIGN.md section 4, C05",
        note="Trusted base: CrossHair 0.0.110, z3 5.1, the plugin's struct model (fresh bytes + one linear equality per integer), the abstract checksum and gzip stubs (real zlib/gzip in every replay), the reference codec vlib/ref/kafka_ref.py. Snappy is absent from the image and outside the claim.",
    ),
    "C04": dict(
        category="other", engine="chplug",
        technique="symbolic execution of the real request encoders with CrossHair/z3 against an independent reference parser (all integer fields and content bytes symbolic, incl. out-of-range); version selection by symrun over all advertised tables in the bound",
        text="Bounded SMT verification of the real request encoders: for every supported API/version a family of shapes is enumerated; within a "
             "shape every integer field is a z3 integer over a superset of its wire range (out of range must raise struct.error, never wrap) and "
             "client id, keys, values, metadata are symbolic bytes. The emitted bytes are parsed by an independent reference parser that selects "
             "the layout from the header's api key/version and must consume the body completely; every parsed field must equal the supplied one "
             "(order of topics/partitions/messages, null vs empty, checksum range, codec attributes) on all paths ('Confirmed over all paths' + "
             "reachability twin). Version selection (ApiVersions discovery incl. error and 3 failed attempts, per-key lookup in permuted tables, "
             "encoder/decoder pairing for produce and fetch) is explored exhaustively with symrun on the real KafkaClient methods.",
        design_ref="DESIGN.md section 4, C04",
        note="Trusted base: CrossHair 0.0.110, z3 5.1, plugin struct model/abstract checksum/gzip stub (real ones in every replay), reference parser vlib/ref/kafka_ref.py, symrun for version selection. Topic names, partition ids and group texts come from finite pools.",
    ),
    "C15": dict(
        category="other", engine="chplug",
        technique="symbolic execution of the real assignment code with CrossHair/z3: symbolic subscription matrix and symbolic distinct partition ids per shape; 'Confirmed over all paths'",
        text="Bounded SMT verification of the real _ConsumerProtocol (generate_assignments, _round_robin_assignment, decode_assignment) together "
             "with the subscription and assignment codecs. Per shape (number of members, topics, partitions per topic, a listing permutation) the "
             "subscription matrix is symbolic booleans and the partition ids are symbolic distinct int32 values; on every path each partition of "
             "a subscribed topic must be decoded by exactly one member, only by subscribed members, sizes differ by at most one for identical "
             "subscriptions, and the result must be identical for the permuted listing.",
        design_ref="DESIGN.md section 4, C15",
        note="Trusted base: CrossHair 0.0.110, z3 5.1, the plugin's struct model. Member ids/topic names come from finite pools; sizes beyond the stated bound are outside the claim.",
    ),
    "C18": dict(
        category="other", engine="astbv",
        technique="AST -> z3 bit-vector translation of pure_murmur2 (per-step lemmas cut at the loop back-edge, no-overflow side obligations, index traces) proved equal to Java's murmur2; CrossHair/z3 for key coercion, membership and round-robin fairness",
        text="Bounded SMT verification. Engine C walks the AST of the current pure_murmur2 source over 72-bit vectors and proves, for an "
             "arbitrary 32-bit running hash and arbitrary bytes, that initialisation, one block step (at several iteration indexes), and "
             "tail+avalanche for every length class equal the Java client's Utils.murmur2 transcribed in 32-bit arithmetic; every * + << "
             "carries a no-overflow side obligation so the bit-vector run equals Python's unbounded integers; per-length index traces compose "
             "the lemmas for every length up to the bound; the partition index is shown to be Java's toPositive(h) % n and in range for all "
             "n < 2^31. The translator is validated on every run against the real function and a plain-int Java reference on fixed and random "
             "vectors. Engine A proves on symbolic keys/lists that bytes, bytearray and text forms agree, the result is the list member the "
             "hash selects, and that RoundRobinPartitioner hits each of n symbolic distinct partitions exactly k times in any k*n window from "
             "any start, also after a list change.",
        design_ref="DESIGN.md section 4, C18",
        note="Trusted base: z3 5.1 (diffed against the z3 4.8.12 binary; cvc5 does not answer the 72-bit multiplication lemma within the cap), the AST evaluator vlib/astbv/eval.py, the Java transcription, CrossHair 0.0.110 + plugin. The C murmurhash2 extension is not installed and outside the claim.",
    ),
    "C12": dict(
        category="other", engine="chplug",
        technique="symbolic execution of the real decoders with CrossHair/z3 on arbitrary symbolic buffers, truncations and hostile counts (abstract checksum); z3 bit-vector lemmas for CRC-32 burst detection",
        text="Bounded SMT verification in four parts. (1) An arbitrary symbolic message body: whenever the stored checksum differs from the "
             "checksum of data[4:], decoding raises ChecksumError and nothing else, and when it matches the decoded fields are those an "
             "independent parser reads from the checksummed bytes. (2) z3 lemmas on a bit-serial CRC-32 model validated against zlib: per-bit "
             "GF(2)-linearity, zero-step injectivity and non-zero difference after any burst of <= 32 consumed bits, which together give burst "
             "detection for messages of any length. (3) Message sets cut at every point yield exactly the complete messages, or the "
             "fetch-size-too-small signal when none is complete. (4) Primitive readers on arbitrary buffers either raise or advance within the "
             "buffer; whole decoders on arbitrary symbolic buffers and on valid responses with hostile count/length values end with a value or "
             "an exception within 4N+8 reader calls on every path.",
        design_ref="DESIGN.md section 4, C12",
        note="Trusted base: CrossHair 0.0.110, z3 5.1, plugin struct model, abstract checksum (also in replays of these obligations), reference parser; the link from the CRC model to the C implementation in zlib is by vectors. Time/memory proportionality is replaced by the reader-call bound; buffer sizes are those stated in the evidence.",
    ),
    "C06": dict(
        category="model_checking",
        technique="dynamic symbolic execution (symrun/z3) of the real _KafkaBrokerClient, KafkaProtocol and KafkaBootstrapProtocol over an in-memory network: symbolic choice of frame ids, split points and event order, exhaustive within bounds",
        text="Bounded symbolic model checking of request/response correlation on the real broker client and both framing protocols over SimNet. "
             "Up to three concurrent requests (with and without expected reply); the broker answers in any order with frames bearing the id of any "
             "live, answered or cancelled request or an unknown id; frames are delivered whole, cut inside the length prefix, inside the correlation "
             "id or before the last byte, or coalesced with a second frame; impossible length prefixes, cancellation, connection loss, duplicate ids "
             "and close are interleaved. After every event exactly the addressed live request must have fired, with exactly the frame's bytes. The "
             "quantified objects are orders and subsets (finite-domain symbolic choices); the verdict is the exhausted, solver-pruned path tree.",
        design_ref="DESIGN.md section 4, C06",
        note=TB_B + " No numeric symbolic data (symbolic_data_vars is empty); the bootstrap protocol's documented drop-on-unknown-id is not flagged.",
    ),
    "C10": dict(
        category="model_checking",
        technique="dynamic symbolic execution (symrun/z3) of the real _KafkaBrokerClient reconnect/resend logic over an in-memory network: symbolic request flags, drop points (incl. inside a frame), connect failures, cancels and close",
        text="Bounded symbolic model checking of reconnection on the real broker client: requests with symbolic flags, connection loss at any point "
             "(also after a partially delivered response), 0..3 consecutive refused connects, cancellations and close in any order. Monitors on the "
             "per-connection frame log: a new connection receives exactly the live unanswered (or never-written no-reply) requests once, in issue "
             "order; answered, cancelled and already-written no-reply requests never reappear; an attempt or back-off timer is pending whenever "
             "unanswered requests remain; back-off equals policy(consecutive failures) and resets after a success; an idle drop starts nothing; "
             "close fails all pending, cancels attempt and timer, and no attempt follows.",
        design_ref="DESIGN.md section 4, C10",
        note=TB_B + " Retry policy n -> n s; finite-domain symbolic choices only.",
    ),
    "C11": dict(
        category="model_checking",
        technique="dynamic symbolic execution (symrun/z3) with symbolic real time: client timeout, min_timeout, connect delay, issue gaps and reply delays are z3 reals; the order of timers and replies is decided by the solver",
        text="Bounded symbolic model checking of the client-side request timeout on the real KafkaClient._make_request_to_broker and broker client "
             "over SimNet, with time as a symbolic real: the configured timeout, the optional longer minimum, the moment the connection is "
             "established (or never), the gaps between requests and each reply delay (or never) are z3 reals, and the scenario always advances the "
             "virtual clock to the next due instant, so every ordering of timers and replies is a solver-decided branch. Monitors: each request "
             "resolves no later than issued + max(timeout, min_timeout); it is a timed-out error iff no reply arrived by then, else the reply; no "
             "timer of a completed request remains; a late reply changes nothing; with disconnect-on-timeout the connection is dropped and the "
             "remaining unanswered requests are re-sent on the next one; the bootstrap request is bounded by the timeout after its connect.",
        design_ref="DESIGN.md section 4, C11",
        note=TB_B + " Time is a real number (no float rounding); client.timeout is injected as an attribute; brokerclient's datetime conversion is a pass-through.",
    ),
    "C07": dict(
        category="model_checking",
        technique="dynamic symbolic execution (symrun/z3) of the real KafkaClient stack (client, broker clients, protocols, real codec) over an in-memory cluster: symbolic layouts, payload orders, broker behaviours, answer orders and shuffle permutations",
        text="Bounded symbolic model checking of routing on the real KafkaClient over SimNet/SimCluster (brokers parse with the reference parser "
             "and answer with the reference encoder). Cluster layout (leader of each partition among up to 3 brokers or none, canonical up to "
             "renaming), the payload subset and order, per-broker behaviour (answer, refuse connection, drop on request, silent until timeout), "
             "the order of answers and random.shuffle's permutation are symbolic finite-domain choices explored exhaustively for produce "
             "(acks 1 and 0), fetch and list-offsets; the coordinator job checks group commits/fetches reach the coordinator; the unaware job "
             "checks connected-first, every broker, then every bootstrap host before KafkaUnavailableError. Also cross-checks the outcome alphabet "
             "assumed by the producer/consumer harnesses.",
        design_ref="DESIGN.md section 4, C07",
        note=TB_B + " Routing keys are hashed by the real code, so all variables are finite-domain; no numeric symbolic data.",
    ),
    "C08": dict(
        category="model_checking",
        technique="dynamic symbolic execution (symrun/z3) of the real KafkaClient metadata code: one inductive merge step from reachable pre-caches under a symbolic response, and fault-injection scripts (leader move, restart on new port, removal) on the real client stack",
        text="Bounded symbolic model checking of the metadata cache. S-step: three reachable pre-caches (produced by the real merge code), then one "
             "symbolic metadata response (covered topics, errors, partition sets, leaders incl. none, broker set shrinking, re-addressing, full or "
             "partial): the view of covered topics must equal the response, other topics stay, broker addresses and live clients are updated, "
             "clients of brokers missing from a full refresh are closed exactly once and nothing is closed on a partial one. S-script: produce "
             "and fetch calls (single payload or two topics on two brokers, either order) while the cluster performs symbolic faults; a failed "
             "call must leave no stale route for the affected partition, and a later call must succeed at the new leader within four attempts, "
             "after which the cached view equals the cluster.",
        design_ref="DESIGN.md section 4, C08",
        note=TB_B + " Finite-domain choices only; bounded fault counts (unbounded liveness is outside the claim).",
    ),
    "C20": dict(
        category="model_checking",
        technique="dynamic symbolic execution (symrun/z3) of the real KafkaClient.close() from a catalogue of reachable client states: every ordering of connection-closed notifications, late connects, late replies and timers after close (symbolic schedule)",
        text="Bounded symbolic model checking of close() on the real KafkaClient stack over SimNet/SimCluster. Nine states are built by concrete "
             "prefixes (idle, bootstrap connecting / request in flight, broker connecting, backing off, requests in flight on three brokers, one or "
             "two brokers being closed by full metadata refreshes with nested close lists, metadata load via a broker); then close() is called and "
             "every ordering of the outstanding connection-closed notifications, late connects/refusals, late replies and timers up to the bound "
             "is explored. Monitors: pending operations have failed when close() returns, new operations fail, no connection attempt and no byte "
             "written afterwards, all connections end closed, close()'s Deferred fires exactly once and not while any connection is open, "
             "metadata is empty. One genuine defect (bootstrap operations in progress are not tracked by close()) is recorded as a known finding.",
        design_ref="DESIGN.md section 4, C20 and section 5",
        note=TB_B + " Finite-domain choices only. Known findings are matched by (label, state) so any other violation is still reported.",
    ),
    "C16": dict(
        category="model_checking",
        technique="dynamic symbolic execution (symrun/z3) of the real ConsumerGroup/Coordinator with real Consumers and the real assignment code against a scripted coordinator: symbolic generation ids, symbolic outcomes per group request, symbolic interleaving and stop point, from a catalogue of deep states",
        text="Bounded symbolic model checking of generation fencing on the real ConsumerGroup + Coordinator with real partition Consumers. "
             "Generation ids are z3 integers increasing by symbolic steps; every group request (coordinator lookup, join as leader or follower, "
             "partition lookup, sync, heartbeat, commit, leave) is answered with ok or a symbolic group error within a fault budget; the order of "
             "replies and timers and the moment of stop() are symbolic. Scripts start fresh or from four deep states reached by concrete prefixes "
             "(stable; heartbeat in flight; auto-commit and heartbeat in flight; rejoining with the old heartbeat unanswered). Monitors after every "
             "event: running consumers belong to the current generation and assignment, commits/sync/heartbeats carry the current generation and "
             "member, no consumer runs when JoinGroup is sent, evicted members stop consumers, at most one join/sync exchange, heartbeats only "
             "while stable, no membership request after stop() is called and nothing at all after it completes.",
        design_ref="DESIGN.md section 4, C16",
        note=TB_B + " Reading of 'after stop': heartbeats may continue while the consumers shut down, none after the LeaveGroup; stale heartbeat replies can only say the generation moved on.",
    ),
    "C17": dict(
        category="model_checking",
        technique="dynamic symbolic execution (symrun/z3) of the real ConsumerGroup/Coordinator under symbolic fault injection at every step of the join protocol, from a catalogue of deep states, with a deterministic bounded settling phase",
        text="Bounded symbolic model checking of progress on the same world as C16: a failure of any kind (each retriable group error, timeout, "
             "KafkaUnavailableError from the metadata or partition lookups, a non-Kafka exception) can be injected at every step within a fault "
             "budget. After every event the member must be joining, stable with the heartbeat timer running, or have a join_and_sync call "
             "scheduled; after a retriable error a rejoin is scheduled within the documented back-off; a non-Kafka error surfaces on the start "
             "Deferred; once faults cease a deterministic settling phase (prompt coordinator, <= fatal back-off + 35 s of virtual time) must reach "
             "a stable member whose running consumers equal its assignment. One genuine defect pinned by an upstream test is a known finding.",
        design_ref="DESIGN.md section 4, C17 and section 5",
        note=TB_B + " Reads Coordinator._rejoin_needed/_rejoin_d/_heartbeat_looper to observe idleness. Bounded fault counts and a bounded settling horizon; unbounded liveness is outside the claim.",
    ),
}

NOT_YET = "check not built yet in this session; see DESIGN.md section 4 for the planned solver-based harness"


# additions made after the second round of seeded changes (appended to the level text of the property)
EXTRA = {
    "C01": " End-to-end jobs compose the real Producer with the real KafkaClient, broker clients, protocol and codec over an in-memory network against simulated brokers (reference parser/encoder) whose behaviour per broker is a symbolic choice (acknowledge, persistent error code, silent, refuse, leadership moves), with an optional symbolic stop point; what each send reported is compared with what the brokers received, applied and acknowledged. Whole-call failures may be KafkaUnavailableError; a retriable failure must be retried until the attempt limit; a send that left the queue and never fired is reported.",
    "C02": " Further jobs let the client answer synchronously (already-fired Deferred) and let the processor return an already-fired Deferred whose callback chain is paused.",
    "C03": " A byte-level job feeds the consumer fetch responses encoded by the reference encoder (plain and gzip-wrapped, both formats, compaction gaps) through the real decoder and compares every commit with the stored offset of the last processed message. Processor failures may be twisted's CancelledError; a failed start() Deferred must be justified by an unrecoverable error the scenario injected.",
    "C04": " A wire monitor additionally encodes, with the real codec, every request object the real Coordinator/ConsumerGroup/Consumer hand to the client on every explored path of the group protocol (error replies, evictions, re-joins) and parses it with the reference parser, which rejects null in non-nullable STRING fields. The version-discovery scenario checks that the correlation id in the header is the id the request is registered under, also on retries, and that an error reply that still lists versions counts as failed discovery.",
    "C05": " One obligation decodes a byte-identical compressed wrapper twice at different log offsets.",
    "C06": " Re-entrancy is part of the script: response callbacks may close the client or re-issue the id, failure handlers may cancel another outstanding request; ids of requests cancelled after they were written are re-used; callbacks of requests that expect no reply may re-enter as well.",
    "C07": " Bootstrap hosts may refuse, accept and stay silent (time-out) or accept and drop.",
    "C08": " Further jobs: acks=0 produce under connection-level faults, and the real Producer on the real client through a whole-cluster outage (producing must resume within the producer's retry budget); a batch spanning two topics whose leaders both moved (fail_on_error=False): every erroring topic must be invalidated.",
    "C09": " Jobs in which the client answers synchronously (already-fired Deferred) exercise the producer's handlers re-entrantly; a job with an unroutable second topic and cancellation; retriable whole-call failures (incl. KafkaUnavailableError) must be retried until the attempt limit; jobs in which the application resubmits from a result handler.",
    "C10": " The retry policy's unit is a symbolic positive real (exact virtual time), so delays are compared exactly with whatever the policy returned; endpoints may fail or succeed connect() before it returns; the broker may answer requests that were cancelled after they were written.",
    "C11": " Further jobs: requests that expect no reply, and an endpoint that connects synchronously.",
    "C12": " The buffer-growth scenario (engine B, symbolic buffer / maximum / message sizes) shared with C14 decides the clause that a truncated final message makes the consumer enlarge its buffer.",
    "C13": " Further states: the outstanding offset lookup or fetch is the last attempt the retry limit allows; commit back-off with further progress; commit back-off with two waiters. commit() Deferreds obtained before stop must have fired; a failed start() Deferred must be justified by an injected unrecoverable error; a restarted consumer must be able to commit; every Deferred the processor returned must be fired or cancelled once stop() has returned. A subset of the states is also run with a client that reports a cancelled in-flight request the way the real KafkaClient does (FailedPayloadsError carrying CancelledError).",
    "C14": " The retry family also starts from the committed position (offset / nothing committed as a symbolic answer) and has a 'message larger than the buffer' success outcome; a fetch may fail because a third party cancelled it.",
    "C15": " An engine-B scenario runs the real Coordinator and _ConsumerProtocol on the real KafkaClient metadata path (down to the bytes, against simulated brokers) while the cluster's partition map changes between generations and a topic may be transiently in error; each generation's SyncGroup is decoded by the reference parser and compared with the partitions the cluster has at that time.",
    "C16": " Coordinator lookups may time out (long back-off); jobs in which the member is assigned partitions of two topics; no commit of the previous generation may be abandoned unanswered before a graceful re-join; one job lets a new consumer fail synchronously inside on_join_complete.",
    "C17": " One job runs the leader's partition lookup on the real client with a transient topic-level error (scenario shared with C15); one job uses a retry back-off of zero.",
    "C18": " Round-robin obligations include lists changed in place by the caller; an engine-B job runs the real Producer with a recording RoundRobinPartitioner through errors, retries and metadata reloads and checks that the recorded selections walk the cycle.",
    "C19": " Re-entrancy jobs: the client may answer synchronously and the application may submit a send from a result handler, i.e. during the producer's own dispatch. The threshold counters are compared with the sends the application still has outstanding; a cancelled send must have left the queue.",
    "C20": " Further states: back-off after an endpoint whose connect() failed synchronously; a refresh closing every live broker; a broker-unaware operation in flight on the only broker. After close() every kind of operation is tried and must fail at once.",
}


def main():
    props = [json.loads(l)["id"] for l in open(os.path.join(ROOT, "properties.jsonl"))]
    checks = []
    na = []
    for pid in props:
        c = CHECKS.get(pid)
        if c is None:
            na.append({"property_id": pid, "reason": NA.get(pid, NOT_YET)})
            continue
        checks.append({
            "property_id": pid,
            "quick_cmd": "./check %s --tier quick" % pid,
            "thorough_cmd": "./check %s --tier thorough" % pid,
            "evidence_file": "/verif/evidence/%s.json" % pid,
            "replay_cmd_template": "./check %s --replay {path}" % pid,
            "engine": c.get("engine", "symrun"),
            "level_claimed": {"category": c["category"], "text": c["text"] + EXTRA.get(pid, ""), "design_ref": c["design_ref"]},
            "level_note": c["note"],
            "technique": c["technique"],
        })
    m = {
        "version": 1,
        "setup_cmd": "./setup.sh",
        "hooks": {
            "guard": "AFKAK_VERIF",
            "enable": "no source hooks exist: every stub is injected from outside through module namespaces at check time; checks export AFKAK_VERIF=1 for uniformity",
            "baseline_off_cmd": "cd /repo && /venv/bin/python -m pytest -ra -q -p no:cacheprovider --timeout=900 --continue-on-collection-errors",
            "source_commits": [],
            "add_only": True,
        },
        "engines": [
            {"name": "symrun", "path": "vlib/symrun", "kind_free_text": "engine B: proxy-based dynamic symbolic execution of the real Twisted state machines with z3 (re-execution DFS, push/pop aligned trail, concrete replay of every path)",
             "serves_properties": [p for p in props if CHECKS.get(p, {}).get("engine", "symrun") == "symrun" and p in CHECKS]},
            {"name": "chplug", "path": "vlib/chplug", "kind_free_text": "engine A: CrossHair 0.0.110 (z3-backed symbolic execution of Python bytecode) with an afkak-specific plugin (linear struct model, abstract checksum, symbolic range)",
             "serves_properties": [p for p in props if CHECKS.get(p, {}).get("engine") == "chplug"]},
            {"name": "astbv", "path": "vlib/astbv", "kind_free_text": "engine C: AST -> z3 bit-vector translation of bit-level kernels (murmur2, CRC-32 lemmas)",
             "serves_properties": [p for p in props if CHECKS.get(p, {}).get("engine") == "astbv"]},
        ],
        "checks": checks,
        "not_applicable": na,
        "notes": "Exit codes of every check: 0 held within the stated bounds (KNOWN-FINDING lines for listed findings), 1 VIOLATION replayed on the real code, 2 inconclusive (solver unknown, budget exhausted, non-reproducing counterexample, vacuous monitor) - never reported as success. Known findings: /verif/known_findings.json.",
    }
    with open(os.path.join(ROOT, "MANIFEST.json"), "w") as f:
        json.dump(m, f, indent=1)
    import jsonschema
    jsonschema.validate(m, json.load(open("/root/.vp/MANIFEST.schema.json")))
    print("MANIFEST.json written: %d checks, %d not_applicable" % (len(checks), len(na)))


NA = {}

if __name__ == "__main__":
    main()
