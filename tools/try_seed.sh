#!/bin/sh
# usage: tools/try_seed.sh <seed dir under /verif/seeded> <PROP> [tier]
# applies seeded/<dir>/patch.diff to /repo, runs the property's check, reverts.
D=/verif/seeded/$1; P=$2; T=${3:-quick}
cd /repo && git apply "$D/patch.diff" || { echo "patch does not apply"; exit 3; }
cd /verif && VERIF_OUT=/tmp/seed_out timeout 3000 ./check $P --tier $T > /tmp/seed_$1_$P.out 2>&1; rc=$?
git -C /repo checkout -- . 
echo "seed=$1 prop=$P tier=$T rc=$rc"; grep -A1 "VIOLATION\|INCONCL" /tmp/seed_$1_$P.out | grep "label=\|INCONCL" | cut -c1-220 | sort | uniq | head -${N:-4}
