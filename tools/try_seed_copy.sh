#!/bin/sh
# usage: tools/try_seed_copy.sh <seed dir under /verif/seeded> <PROP> [tier]
# development helper: like try_seed.sh but leaves /repo alone -- exports /repo's HEAD to a scratch copy,
# applies the patch there, and runs the check with AFKAK_SRC pointing at the copy (safe while other checks run).
D=/verif/seeded/$1; P=$2; T=${3:-quick}
S=$(mktemp -d /tmp/sc_XXXXXX)
git -C /repo archive HEAD afkak | tar -x -C $S || exit 3
(cd $S && patch -p1 -s < "$D/patch.diff") || { echo "patch does not apply"; rm -rf $S; exit 3; }
cd /verif && AFKAK_SRC=$S VERIF_OUT=$S/out timeout 3000 ./check $P --tier $T > /tmp/seed_$1_$P.out 2>&1; rc=$?
rm -rf $S
echo "seed=$1 prop=$P tier=$T rc=$rc"; grep -A1 "VIOLATION\|INCONCL" /tmp/seed_$1_$P.out | grep "label=\|INCONCL" | cut -c1-220 | sort | uniq | head -${N:-4}
