"""Driver for engine-B harnesses: runs the jobs of a harness module over a process pool,
merges statistics, handles replays and writes the evidence file."""
import importlib
import json
import logging
import multiprocessing as mp
import os
import sys
import time

from . import report
from .symrun import ConcCtx, Explorer
from .symrun.core import Stats, _ev_str
from .symrun import selftest


def _env_setup():
    logging.disable(logging.CRITICAL)
    import warnings

    warnings.simplefilter("ignore")
    try:  # Twisted reports Deferreds garbage-collected with an unhandled Failure: not part of any claim
        from twisted.logger import globalLogBeginner

        globalLogBeginner.beginLoggingTo([lambda e: None], redirectStandardIO=False, discardBuffer=True)
    except Exception:
        pass


def _run_job(args):
    modname, job, limits = args
    _env_setup()
    mod = importlib.import_module(modname)
    t0 = time.time()
    try:
        scen = mod.scenario(job)
        forced = job.get("_forced")
        ex = Explorer(
            scen,
            max_paths=limits.get("max_paths"),
            max_seconds=limits.get("max_seconds"),
            validate=limits.get("validate", "all"),
            forced=(tuple(forced), limits["split_depth"]) if forced is not None else None,
        ).run()
    except Exception as e:  # noqa
        import traceback

        return {"job": job, "errors": ["job crashed: %r\n%s" % (e, traceback.format_exc())], "stats": None}
    st = ex.stats
    viol = []
    for v in ex.violations:
        v.job = job
        viol.append(v.to_json())
    errors = list(ex.errors)
    if not ex.complete and not errors:
        errors.append("exploration of job %r not exhausted within its budget (%d paths, %.0fs)" % (job, st.paths, time.time() - t0))
    return {
        "job": job,
        "errors": errors,
        "complete": ex.complete,
        "violations": viol,
        "samples": ex.samples,
        "wall": time.time() - t0,
        "stats": {
            "paths": st.paths,
            "dead": st.dead_paths,
            "decisions": st.decisions,
            "forks": st.forks,
            "q_sat": st.q_sat,
            "q_unsat": st.q_unsat,
            "q_unknown": st.q_unknown,
            "solver_s": st.solver_s,
            "checks": st.checks,
            "sym_vars": sorted(st.sym_vars),
            "choice_vars": sorted(st.choice_vars),
            "validated": st.validated,
        },
    }


def _probe_job(args):
    """Enumerate the feasible prefixes of the first split_depth symbolic choices of a job."""
    modname, job, limits = args
    _env_setup()
    mod = importlib.import_module(modname)
    ex = Explorer(mod.scenario(job), validate=0, probe_depth=limits["split_depth"], max_seconds=300).run()
    if ex.errors or not ex.complete:
        return job, None, ex.errors or ["probe not exhausted"]
    return job, sorted(ex.prefixes), []


def replay(modname, path):
    _env_setup()
    mod = importlib.import_module(modname)
    with open(path) as f:
        v = json.load(f)
    scen = mod.scenario(v["job"])
    c = ConcCtx(v["model"], v["choices"])
    from .symrun import core

    core._CTX = c
    try:
        scen(c)
    finally:
        core._CTX = None
    for e in c.events:
        print("  ", _ev_str(e))
    if any(lbl == v["label"] for (lbl, sig, det) in c.failed):
        print("REPRODUCED property=%s label=%s" % (mod.ID, v["label"]))
        for f_ in c.failed:
            print("  failed:", f_)
        return 1
    print("not reproduced (failed monitors: %r)" % (c.failed,))
    return 0


def main(modname, tier):
    t0 = time.time()
    _env_setup()
    selftest.run()
    mod = importlib.import_module(modname)
    jobs = mod.jobs(tier)
    limits = mod.limits(tier) if hasattr(mod, "limits") else {}
    nproc = int(os.environ.get("VERIF_PROCS", "16"))
    args = [(modname, j, limits) for j in jobs]
    ctxmp = mp.get_context("fork")
    results = []
    probe_errors = []
    if limits.get("split_depth"):
        # split every job into sub-jobs by the values of its first few symbolic choices (exact partition)
        with ctxmp.Pool(min(nproc, max(1, len(args)))) as pool:
            split = pool.map(_probe_job, args, chunksize=1)
        args = []
        for job, prefixes, errs in split:
            if prefixes is None:
                probe_errors.extend(errs)
                continue
            for pf in prefixes:
                args.append((modname, dict(job, _forced=list(pf)), limits))
    with ctxmp.Pool(min(nproc, max(1, len(args)))) as pool:
        for r in pool.imap_unordered(_run_job, args, chunksize=1):
            results.append(r)
    tot = Stats()
    errors, violations, samples = list(probe_errors), [], []
    checks = {}
    sym_vars, choice_vars = set(), set()
    paths = dead = decisions = forks = qs = qu = qk = validated = 0
    solver_s = 0.0
    for r in results:
        errors.extend(r.get("errors") or [])
        st = r.get("stats")
        if not st:
            continue
        violations.extend(r.get("violations") or [])
        if len(samples) < 4 and r.get("samples"):
            s0 = dict(r["samples"][0])
            s0["job"] = r["job"]
            samples.append(s0)
        paths += st["paths"]
        dead += st["dead"]
        decisions += st["decisions"]
        forks += st["forks"]
        qs += st["q_sat"]
        qu += st["q_unsat"]
        qk += st["q_unknown"]
        solver_s += st["solver_s"]
        validated += st["validated"]
        sym_vars |= set(st["sym_vars"])
        choice_vars |= set(st["choice_vars"])
        for k, v in st["checks"].items():
            a = checks.setdefault(k, [0, 0])
            a[0] += v[0]
            a[1] += v[1]
    # vacuity: every monitor the harness declares must have been evaluated
    for lbl in getattr(mod, "REQUIRED_LABELS", []):
        if checks.get(lbl, [0])[0] == 0:
            errors.append("vacuity: monitor %r was never reached in tier %s" % (lbl, tier))
    # de-duplicate violations by (label, sig), preferring reproduced ones
    best = {}
    for v in violations:
        k = (v["label"], v.get("sig", ""))
        if k not in best or (v.get("reproduced") and not best[k].get("reproduced")):
            best[k] = v
    violations = list(best.values())
    if not samples:
        samples = [{"note": "no completed path"}]
    coverage = {
        "states": max(paths, 1),
        "transitions": max(decisions, 1),
        "traces_validated_against_impl": validated,
        "samples": samples,
        "exhaustive": not errors,
        "explanation": "bounded symbolic model checking of the real classes: states = completed symbolic paths "
        "(each a set of concrete runs characterised by its path condition), transitions = decisions taken "
        "(solver-decided branches and finite-domain choices); every path's model was replayed on plain "
        "values with an identical event log (traces_validated_against_impl).",
        "jobs": len(jobs),
        "subjobs": len(args),
        "dead_paths": dead,
        "forks": forks,
        "solver_queries": {"sat": qs, "unsat": qu, "unknown": qk},
        "solver_s": round(solver_s, 2),
        "symbolic_data_vars": sorted(sym_vars),
        "choice_vars": sorted(choice_vars),
        "monitors": {k: {"evaluated": v[0], "decided_by_solver": v[1]} for k, v in sorted(checks.items())},
        "bounds": mod.bounds(tier) if hasattr(mod, "bounds") else {},
        "functions_encoded": report.functions_encoded(mod.functions()) if hasattr(mod, "functions") else [],
        "cpu_s": round(sum(r.get("wall", 0) for r in results), 1),
    }
    rc = report.finish(mod.ID, tier, "model_checking", coverage, list(getattr(mod, "ASSUMPTIONS", [])), violations, errors, t0)
    return rc


if __name__ == "__main__":
    if len(sys.argv) >= 4 and sys.argv[2] == "--replay":
        sys.exit(replay(sys.argv[1], sys.argv[3]))
    sys.exit(main(sys.argv[1], sys.argv[2]))
