"""Engine C: a small evaluator that walks the `ast` of the *current source* of a bit-level Python
kernel over z3 bit-vectors.

Values are either concrete Python ints (lengths, loop counters, constants) or BitVec(W) terms.
Python ints are unbounded, bit-vectors wrap: for every `*`, `+`, `<<`, `-` the evaluator records
a *no-overflow side obligation* under the current assumptions, so the bit-vector run equals the
Python run exactly when all side obligations are discharged (a dropped mask in the source shows
up as a failed side obligation with a concrete witness, not as silent wrap-around).

Supported: Assign / AugAssign / For over range(concrete) / If on concrete tests / Expr docstrings /
Return / Subscript with a concrete index / BinOp (& | ^ << >> % * + - //) / UnaryOp (~ -) /
Compare on concrete values / calls to len(), isinstance() (concrete True), range().
Anything else raises Unsupported naming the node (reported as inconclusive).
"""
import ast
import inspect
import textwrap

import z3

W = 72


class Unsupported(Exception):
    pass


class Returned(Exception):
    def __init__(self, v):
        self.v = v


class SymArray:
    """bytearray of concrete length whose cells are BitVec(W) terms < 256; records index reads"""

    def __init__(self, cells):
        self.cells = cells
        self.reads = []

    def __len__(self):
        return len(self.cells)


def is_bv(x):
    return z3.is_bv(x)


def bv(x):
    return x if is_bv(x) else z3.BitVecVal(x, W)


class Evaluator:
    def __init__(self, assumptions=()):
        self.side = []  # (description, z3 condition that must hold)
        self.assumptions = list(assumptions)
        self.ops = 0

    # ---- statements -----------------------------------------------------------------
    def run_function(self, fn, args):
        src = textwrap.dedent(inspect.getsource(fn))
        tree = ast.parse(src)
        fdef = tree.body[0]
        env = {}
        params = [a.arg for a in fdef.args.args]
        defaults = fdef.args.defaults
        for i, name in enumerate(params):
            if i < len(args):
                env[name] = args[i]
            else:
                d = defaults[i - (len(params) - len(defaults))]
                env[name] = self.expr(d, env)
        try:
            self.block(fdef.body, env)
        except Returned as r:
            return r.v, env
        return None, env

    def block(self, stmts, env):
        for st in stmts:
            self.stmt(st, env)

    def stmt(self, st, env):
        if isinstance(st, ast.Expr):
            if isinstance(st.value, ast.Constant):
                return  # docstring
            self.expr(st.value, env)
            return
        if isinstance(st, ast.Assign):
            if len(st.targets) != 1 or not isinstance(st.targets[0], ast.Name):
                raise Unsupported("assignment target %s" % ast.dump(st.targets[0]))
            env[st.targets[0].id] = self.expr(st.value, env)
            return
        if isinstance(st, ast.AugAssign):
            if not isinstance(st.target, ast.Name):
                raise Unsupported("augassign target")
            cur = env[st.target.id]
            env[st.target.id] = self.binop(st.op, cur, self.expr(st.value, env), st)
            return
        if isinstance(st, ast.For):
            it = self.expr(st.iter, env)
            if not isinstance(it, range):
                raise Unsupported("for over non-range")
            if not isinstance(st.target, ast.Name):
                raise Unsupported("for target")
            for i in it:
                env[st.target.id] = i
                self.block(st.body, env)
            if st.orelse:
                raise Unsupported("for-else")
            return
        if isinstance(st, ast.If):
            c = self.expr(st.test, env)
            if is_bv(c) or z3.is_expr(c):
                raise Unsupported("if on a symbolic condition (line %d)" % st.lineno)
            self.block(st.body if c else st.orelse, env)
            return
        if isinstance(st, ast.Pass):
            return
        if isinstance(st, ast.Return):
            raise Returned(self.expr(st.value, env) if st.value is not None else None)
        if isinstance(st, ast.Raise):
            raise Unsupported("raise reached (line %d)" % st.lineno)
        raise Unsupported("statement %s (line %d)" % (type(st).__name__, st.lineno))

    # ---- expressions ---------------------------------------------------------------------
    def expr(self, e, env):
        if isinstance(e, ast.Constant):
            if isinstance(e.value, (int, bool)):
                return int(e.value)
            return e.value
        if isinstance(e, ast.Name):
            if e.id in env:
                return env[e.id]
            if e.id in ("bytearray", "int", "bytes"):
                return {"bytearray": SymArray, "int": int, "bytes": bytes}[e.id]
            raise Unsupported("free name %s" % e.id)
        if isinstance(e, ast.BinOp):
            return self.binop(e.op, self.expr(e.left, env), self.expr(e.right, env), e)
        if isinstance(e, ast.UnaryOp):
            v = self.expr(e.operand, env)
            if isinstance(e.op, ast.Invert):
                return ~v
            if isinstance(e.op, ast.USub):
                if is_bv(v):
                    raise Unsupported("negation of symbolic value")
                return -v
            if isinstance(e.op, ast.Not):
                if is_bv(v):
                    raise Unsupported("not on symbolic")
                return not v
            raise Unsupported("unary %s" % type(e.op).__name__)
        if isinstance(e, ast.Subscript):
            arr = self.expr(e.value, env)
            idx = self.expr(e.slice, env)
            if not isinstance(arr, SymArray):
                raise Unsupported("subscript of %r" % type(arr).__name__)
            if is_bv(idx):
                raise Unsupported("symbolic index")
            if not (0 <= idx < len(arr.cells)):
                raise IndexError("index %d out of range for length %d" % (idx, len(arr.cells)))
            arr.reads.append(idx)
            return arr.cells[idx]
        if isinstance(e, ast.Call):
            if isinstance(e.func, ast.Name):
                fn = e.func.id
                args = [self.expr(a, env) for a in e.args]
                if fn == "len":
                    return len(args[0])
                if fn == "range":
                    if any(is_bv(a) for a in args):
                        raise Unsupported("range over symbolic")
                    return range(*args)
                if fn == "isinstance":
                    return isinstance(args[0], args[1]) if not isinstance(args[0], SymArray) else (args[1] is SymArray)
                if fn == "type":
                    return type(args[0])
            raise Unsupported("call %s" % ast.dump(e.func)[:60])
        if isinstance(e, ast.Compare):
            if len(e.ops) != 1:
                raise Unsupported("chained comparison")
            a, b = self.expr(e.left, env), self.expr(e.comparators[0], env)
            if is_bv(a) or is_bv(b):
                raise Unsupported("comparison of symbolic values (line %d)" % e.lineno)
            op = e.ops[0]
            return {
                ast.Eq: a == b, ast.NotEq: a != b, ast.Lt: a < b, ast.LtE: a <= b, ast.Gt: a > b, ast.GtE: a >= b,
            }[type(op)]
        if isinstance(e, ast.Tuple):
            return tuple(self.expr(x, env) for x in e.elts)
        raise Unsupported("expression %s" % type(e).__name__)

    def binop(self, op, a, b, node):
        if not is_bv(a) and not is_bv(b):
            return {
                ast.Add: lambda: a + b, ast.Sub: lambda: a - b, ast.Mult: lambda: a * b, ast.FloorDiv: lambda: a // b,
                ast.Mod: lambda: a % b, ast.BitAnd: lambda: a & b, ast.BitOr: lambda: a | b, ast.BitXor: lambda: a ^ b,
                ast.LShift: lambda: a << b, ast.RShift: lambda: a >> b,
            }[type(op)]()
        self.ops += 1
        line = getattr(node, "lineno", 0)
        if not is_bv(a) and isinstance(a, int) and (a < 0 or a >= (1 << W)):
            raise Unsupported("constant outside the bit-vector width")
        x, y = bv(a), bv(b)
        if isinstance(op, ast.BitAnd):
            return x & y
        if isinstance(op, ast.BitOr):
            return x | y
        if isinstance(op, ast.BitXor):
            return x ^ y
        if isinstance(op, ast.Mult):
            self.side.append(("line %d: * does not exceed %d bits" % (line, W), z3.BVMulNoOverflow(x, y, False)))
            return x * y
        if isinstance(op, ast.Add):
            self.side.append(("line %d: + does not exceed %d bits" % (line, W), z3.BVAddNoOverflow(x, y, False)))
            return x + y
        if isinstance(op, ast.Sub):
            self.side.append(("line %d: - does not go negative" % line, z3.UGE(x, y)))
            return x - y
        if isinstance(op, ast.LShift):
            if is_bv(b):
                raise Unsupported("shift by symbolic amount")
            r = x << y
            self.side.append(("line %d: << %d does not exceed %d bits" % (line, b, W), z3.LShR(r, y) == x))
            return r
        if isinstance(op, ast.RShift):
            if is_bv(b):
                raise Unsupported("shift by symbolic amount")
            return z3.LShR(x, y)  # operands are non-negative (all values are naturals below 2^W)
        if isinstance(op, ast.Mod):
            if is_bv(b):
                return z3.URem(x, y)
            if b > 0 and (b & (b - 1)) == 0:
                return x & z3.BitVecVal(b - 1, W)
            return z3.URem(x, y)
        if isinstance(op, ast.FloorDiv):
            return z3.UDiv(x, y)
        raise Unsupported("operator %s" % type(op).__name__)


def loop_body(fn):
    """(prelude statements before the first `for`, the For node, statements after it)"""
    src = textwrap.dedent(inspect.getsource(fn))
    fdef = ast.parse(src).body[0]
    for i, st in enumerate(fdef.body):
        if isinstance(st, ast.For):
            return fdef, fdef.body[:i], st, fdef.body[i + 1 :]
    raise Unsupported("no for loop found")
