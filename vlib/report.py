"""Common plumbing: evidence files, known findings, replays, exit codes.

Exit codes: 0 held (plus KNOWN-FINDING lines) | 1 VIOLATION (replayed on the real code) |
2 inconclusive / harness error (never reported as success, never as a violation).
"""
import hashlib
import inspect
import json
import os
import sys
import time

ROOT = os.path.dirname(os.path.dirname(os.path.abspath(__file__)))
# VERIF_OUT (development only, set by tools/try_seed_copy.sh): write evidence and replays of a run against a scratch
# copy somewhere else, so that /verif/evidence only ever describes runs against /repo itself
_OUT = os.environ.get("VERIF_OUT") or ROOT
EVID = os.path.join(_OUT, "evidence")
REPLAYS = os.path.join(_OUT, "replays")
for _d in (EVID, REPLAYS):
    os.makedirs(_d, exist_ok=True)
KNOWN = os.path.join(ROOT, "known_findings.json")


def seed():
    try:
        return int(os.environ.get("VERIF_SEED", "0"))
    except ValueError:
        return 0


def src_hash(obj):
    """SHA-256 (first 16 hex) of the current source text of a function/class in /repo."""
    try:
        src = inspect.getsource(obj)
    except (OSError, TypeError):
        return "?"
    return hashlib.sha256(src.encode()).hexdigest()[:16]


def functions_encoded(objs):
    out = []
    for o in objs:
        name = getattr(o, "__qualname__", getattr(o, "__name__", str(o)))
        mod = getattr(o, "__module__", "?")
        out.append("%s.%s@%s" % (mod, name, src_hash(o)))
    return out


def load_known():
    try:
        with open(KNOWN) as f:
            return json.load(f)
    except FileNotFoundError:
        return {"findings": [], "fixed": []}


def match_known(prop, label, sig):
    """A violation is a listed finding only if property, monitor label and call-site
    signature all match a committed entry."""
    for k in load_known().get("findings", []):
        if k["property"] != prop:
            continue
        if k["label"] != label:
            continue
        ks = k.get("sig")
        if ks is None or ks == sig:
            return k
        if isinstance(ks, list) and sig in ks:
            return k
    return None


def write_replay(prop, v):
    os.makedirs(REPLAYS, exist_ok=True)
    key = hashlib.sha256(json.dumps([v.get("label"), v.get("sig")], sort_keys=True).encode()).hexdigest()[:10]
    path = os.path.join(REPLAYS, "%s_%s.json" % (prop, key))
    with open(path, "w") as f:
        json.dump(dict(v, property=prop), f, indent=1, default=str)
    return path


def finish(prop, tier, level, coverage, assumptions, violations, errors, t0, extra=None):
    """violations: list of dict(label, sig, detail, reproduced, ...).  errors: list of str."""
    known_lines = []
    new = []
    unrepro = []
    for v in violations:
        if not v.get("reproduced"):
            unrepro.append(v)
            continue
        k = match_known(prop, v["label"], v.get("sig", ""))
        if k is not None:
            known_lines.append("KNOWN-FINDING: property=%s %s [label=%s sig=%s]" % (prop, k["what"], v["label"], v.get("sig", "")))
        else:
            new.append(v)
    cov = dict(coverage)
    cov["known_findings_seen"] = len(known_lines)
    ev = {
        "property_id": prop,
        "tier": tier,
        "seed": seed(),
        "level": level,
        "coverage": cov,
        "assumptions": assumptions,
        "wall_s": round(time.time() - t0, 2),
        "violations": len(new),
    }
    if extra:
        ev.update(extra)
    if errors or unrepro:
        ev["coverage"]["inconclusive"] = [str(e)[:2000] for e in errors][:10] + [
            "counterexample did not replay: %s %s" % (v["label"], v.get("detail", ""))[:2000] for v in unrepro
        ][:10]
    os.makedirs(EVID, exist_ok=True)
    with open(os.path.join(EVID, prop + ".json"), "w") as f:
        json.dump(ev, f, indent=1, default=str)
    for line in sorted(set(known_lines)):
        print(line)
    for v in new:
        path = write_replay(prop, v)
        print("VIOLATION property=%s replay=%s" % (prop, path))
        print("  label=%s sig=%s\n  %s" % (v["label"], v.get("sig", ""), str(v.get("detail", ""))[:1500]))
    if new:
        sys.stdout.flush()
        return 1
    if errors or unrepro:
        for e in errors[:5]:
            print("INCONCLUSIVE property=%s: %s" % (prop, str(e)[:3000]))
        for v in unrepro[:5]:
            print("INCONCLUSIVE property=%s: counterexample for %s did not replay on the real code: %s" % (prop, v["label"], str(v.get("detail"))[:1500]))
        sys.stdout.flush()
        return 2
    print("OK property=%s tier=%s wall=%.1fs" % (prop, tier, time.time() - t0))
    sys.stdout.flush()
    return 0
