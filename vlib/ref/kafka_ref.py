"""Reference Kafka codec (independent oracle): request *parsers* and response *encoders* for the
thirteen APIs afkak speaks, written from the public protocol guide
(kafka.apache.org/protocol; message formats 0 and 1 = "old" MessageSet).  It shares nothing
with afkak except `struct` and the checksum function.  Validated on every run against the byte
strings hand-written by afkak's authors in afkak/test/test_kafkacodec.py (vlib/ref/selfcheck.py).
"""
import struct
import zlib


class ParseError(Exception):
    pass


class R:
    """Cursor over a bytes-like value."""

    def __init__(self, data, pos=0):
        self.d = data
        self.p = pos

    def take(self, n):
        if n < 0 or self.p + n > len(self.d):
            raise ParseError("need %r bytes at %r of %r" % (n, self.p, len(self.d)))
        b = self.d[self.p : self.p + n]
        self.p += n
        return b

    def i8(self):
        return struct.unpack(">b", self.take(1))[0]

    def u8(self):
        return struct.unpack(">B", self.take(1))[0]

    def i16(self):
        return struct.unpack(">h", self.take(2))[0]

    def i32(self):
        return struct.unpack(">i", self.take(4))[0]

    def u32(self):
        return struct.unpack(">I", self.take(4))[0]

    def i64(self):
        return struct.unpack(">q", self.take(8))[0]

    def string(self):
        """STRING (not nullable) -> bytes"""
        n = self.i16()
        if n < 0:
            raise ParseError("non-nullable STRING has length %r" % (n,))
        return self.take(n)

    def nstring(self):
        """NULLABLE_STRING -> bytes or None"""
        n = self.i16()
        if n == -1:
            return None
        if n < -1:
            raise ParseError("string length %r" % (n,))
        return self.take(n)

    def bytes_(self):
        """BYTES / NULLABLE_BYTES -> bytes or None"""
        n = self.i32()
        if n == -1:
            return None
        if n < -1:
            raise ParseError("bytes length %r" % (n,))
        return self.take(n)

    def array(self, fn):
        n = self.i32()
        if n < 0:
            raise ParseError("array length %r" % (n,))
        out = []
        i = 0
        while i < n:
            out.append(fn())
            i += 1
        return out

    def done(self):
        return self.p == len(self.d)


# ------------------------------------------------------------------------- message sets


def parse_message_set(data):
    """-> [(offset, dict(crc_ok, magic, attributes, timestamp, key, value))] ; strict: whole buffer."""
    r = R(data)
    out = []
    while not r.done():
        off = r.i64()
        size = r.i32()
        body = r.take(size)
        out.append((off, parse_message(body)))
    return out


def parse_message(body):
    r = R(body)
    crc = r.u32()
    magic = r.i8()
    attrs = r.u8()  # a bit field: presented unsigned
    ts = None
    if magic == 1:
        ts = r.i64()
    elif magic != 0:
        raise ParseError("magic %r" % (magic,))
    key = r.bytes_()
    value = r.bytes_()
    if not r.done():
        raise ParseError("trailing bytes in message")
    crc_ok = crc == (zlib.crc32(body[4:]) & 0xFFFFFFFF)
    return {"crc_ok": crc_ok, "magic": magic, "attributes": attrs, "timestamp": ts, "key": key, "value": value}


def encode_message(magic, attributes, key, value, timestamp=None):
    if magic == 0:
        body = struct.pack(">bB", magic, attributes)
    else:
        body = struct.pack(">bBq", magic, attributes, timestamp)
    body += enc_bytes(key) + enc_bytes(value)
    crc = zlib.crc32(body) & 0xFFFFFFFF
    return struct.pack(">I", crc) + body


def encode_message_set(entries):
    """entries: [(offset, encoded message bytes)]"""
    out = b""
    for off, m in entries:
        out += struct.pack(">qi", off, len(m)) + m
    return out


def enc_string(s):
    if s is None:
        return struct.pack(">h", -1)
    return struct.pack(">h", len(s)) + s


def enc_bytes(b):
    if b is None:
        return struct.pack(">i", -1)
    return struct.pack(">i", len(b)) + b


def enc_array(items):
    out = struct.pack(">i", len(items))
    for it in items:
        out += it
    return out


# ------------------------------------------------------------------------- request parsers

API = {
    "produce": 0,
    "fetch": 1,
    "list_offsets": 2,
    "metadata": 3,
    "offset_commit": 8,
    "offset_fetch": 9,
    "find_coordinator": 10,
    "join_group": 11,
    "heartbeat": 12,
    "leave_group": 13,
    "sync_group": 14,
    "api_versions": 18,
}


def parse_request(data):
    """-> dict(api_key, api_version, correlation_id, client_id, body=...) ; raises ParseError unless the body is
    consumed completely under the layout of (api_key, api_version)."""
    r = R(data)
    key = r.i16()
    ver = r.i16()
    corr = r.i32()
    client = r.nstring()
    body = _BODY[(key, ver)](r) if (key, ver) in _BODY else None
    if (key, ver) not in _BODY:
        raise ParseError("unsupported api %r v%r" % (key, ver))
    if not r.done():
        raise ParseError("trailing %d bytes after %r v%r body" % (len(data) - r.p, key, ver))
    return {"api_key": key, "api_version": ver, "correlation_id": corr, "client_id": client, "body": body}


def _produce(r):
    acks = r.i16()
    timeout = r.i32()

    def topic():
        name = r.string()

        def part():
            p = r.i32()
            ms = r.bytes_()
            return (p, parse_message_set(ms))

        return (name, r.array(part))

    return {"acks": acks, "timeout": timeout, "topics": r.array(topic)}


def _fetch(r):
    replica = r.i32()
    max_wait = r.i32()
    min_bytes = r.i32()

    def topic():
        name = r.string()
        return (name, r.array(lambda: (r.i32(), r.i64(), r.i32())))

    return {"replica_id": replica, "max_wait": max_wait, "min_bytes": min_bytes, "topics": r.array(topic)}


def _list_offsets(r):
    replica = r.i32()

    def topic():
        name = r.string()
        return (name, r.array(lambda: (r.i32(), r.i64(), r.i32())))

    return {"replica_id": replica, "topics": r.array(topic)}


def _metadata(r):
    return {"topics": r.array(r.string)}


def _offset_commit_v1(r):
    group = r.string()
    gen = r.i32()
    member = r.string()

    def topic():
        name = r.string()
        return (name, r.array(lambda: (r.i32(), r.i64(), r.i64(), r.nstring())))

    return {"group": group, "generation": gen, "member": member, "topics": r.array(topic)}


def _offset_fetch_v1(r):
    group = r.string()

    def topic():
        name = r.string()
        return (name, r.array(r.i32))

    return {"group": group, "topics": r.array(topic)}


def _find_coordinator(r):
    return {"group": r.string()}


def _join_group(r):
    group = r.string()
    st = r.i32()
    member = r.string()
    ptype = r.string()
    protos = r.array(lambda: (r.string(), r.bytes_()))
    return {"group": group, "session_timeout": st, "member": member, "protocol_type": ptype, "protocols": protos}


def _sync_group(r):
    group = r.string()
    gen = r.i32()
    member = r.string()
    asg = r.array(lambda: (r.string(), r.bytes_()))
    return {"group": group, "generation": gen, "member": member, "assignments": asg}


def _heartbeat(r):
    return {"group": r.string(), "generation": r.i32(), "member": r.string()}


def _leave_group(r):
    return {"group": r.string(), "member": r.string()}


def _api_versions(r):
    return {}


_BODY = {
    (0, 0): _produce,
    (0, 2): _produce,
    (1, 0): _fetch,
    (1, 2): _fetch,
    (2, 0): _list_offsets,
    (3, 0): _metadata,
    (8, 1): _offset_commit_v1,
    (9, 1): _offset_fetch_v1,
    (10, 0): _find_coordinator,
    (11, 0): _join_group,
    (12, 0): _heartbeat,
    (13, 0): _leave_group,
    (14, 0): _sync_group,
    (18, 0): _api_versions,
}


def parse_consumer_protocol_metadata(data):
    r = R(data)
    ver = r.i16()
    topics = r.array(r.string)
    user = r.bytes_()
    if not r.done():
        raise ParseError("trailing bytes")
    return {"version": ver, "topics": topics, "user_data": user}


def parse_consumer_assignment(data):
    r = R(data)
    ver = r.i16()

    def topic():
        name = r.string()
        return (name, r.array(r.i32))

    topics = r.array(topic)
    user = r.bytes_()
    if not r.done():
        raise ParseError("trailing bytes")
    return {"version": ver, "topics": topics, "user_data": user}


def enc_consumer_protocol_metadata(version, topics, user_data):
    return struct.pack(">h", version) + enc_array([enc_string(t) for t in topics]) + enc_bytes(user_data)


def enc_consumer_assignment(version, topics, user_data):
    """topics: [(name bytes, [partition ids])]"""
    return (
        struct.pack(">h", version)
        + enc_array([enc_string(n) + enc_array([struct.pack(">i", p) for p in ps]) for n, ps in topics])
        + enc_bytes(user_data)
    )


# ------------------------------------------------------------------------- response encoders


def resp_produce(corr, version, topics, throttle=0):
    """topics: [(name, [(partition, error, offset, log_append_time)])]"""
    out = struct.pack(">i", corr)
    ts = []
    for name, parts in topics:
        ps = []
        for (p, err, off, lat) in parts:
            if version >= 2:
                ps.append(struct.pack(">ihqq", p, err, off, lat))
            else:
                ps.append(struct.pack(">ihq", p, err, off))
        ts.append(enc_string(name) + enc_array(ps))
    out += enc_array(ts)
    if version >= 1:
        out += struct.pack(">i", throttle)
    return out


def resp_fetch(corr, version, topics, throttle=0):
    """topics: [(name, [(partition, error, high_watermark, message_set_bytes)])]"""
    out = struct.pack(">i", corr)
    if version >= 1:
        out += struct.pack(">i", throttle)
    ts = []
    for name, parts in topics:
        ps = []
        for (p, err, hw, ms) in parts:
            ps.append(struct.pack(">ihq", p, err, hw) + enc_bytes(ms))
        ts.append(enc_string(name) + enc_array(ps))
    return out + enc_array(ts)


def resp_list_offsets(corr, topics):
    """topics: [(name, [(partition, error, [offsets])])]"""
    ts = []
    for name, parts in topics:
        ps = []
        for (p, err, offs) in parts:
            ps.append(struct.pack(">ih", p, err) + enc_array([struct.pack(">q", o) for o in offs]))
        ts.append(enc_string(name) + enc_array(ps))
    return struct.pack(">i", corr) + enc_array(ts)


def resp_metadata(corr, brokers, topics):
    """brokers: [(node, host, port)]; topics: [(error, name, [(perr, pid, leader, [replicas], [isr])])]"""
    bs = [struct.pack(">i", n) + enc_string(h) + struct.pack(">i", p) for (n, h, p) in brokers]
    ts = []
    for (err, name, parts) in topics:
        ps = []
        for (perr, pid, leader, reps, isr) in parts:
            ps.append(
                struct.pack(">hii", perr, pid, leader)
                + enc_array([struct.pack(">i", x) for x in reps])
                + enc_array([struct.pack(">i", x) for x in isr])
            )
        ts.append(struct.pack(">h", err) + enc_string(name) + enc_array(ps))
    return struct.pack(">i", corr) + enc_array(bs) + enc_array(ts)


def resp_offset_commit(corr, topics):
    """topics: [(name, [(partition, error)])]"""
    ts = [enc_string(n) + enc_array([struct.pack(">ih", p, e) for (p, e) in ps]) for n, ps in topics]
    return struct.pack(">i", corr) + enc_array(ts)


def resp_offset_fetch(corr, topics):
    """topics: [(name, [(partition, offset, metadata, error)])]"""
    ts = []
    for n, ps in topics:
        ts.append(
            enc_string(n) + enc_array([struct.pack(">iq", p, o) + enc_string(m) + struct.pack(">h", e) for (p, o, m, e) in ps])
        )
    return struct.pack(">i", corr) + enc_array(ts)


def resp_find_coordinator(corr, error, node, host, port):
    return struct.pack(">ihi", corr, error, node) + enc_string(host) + struct.pack(">i", port)


def resp_join_group(corr, error, generation, protocol, leader, member, members):
    """members: [(member_id, metadata bytes)]"""
    return (
        struct.pack(">ihi", corr, error, generation)
        + enc_string(protocol)
        + enc_string(leader)
        + enc_string(member)
        + enc_array([enc_string(m) + enc_bytes(d) for (m, d) in members])
    )


def resp_sync_group(corr, error, assignment):
    return struct.pack(">ih", corr, error) + enc_bytes(assignment)


def resp_heartbeat(corr, error):
    return struct.pack(">ih", corr, error)


resp_leave_group = resp_heartbeat


def resp_api_versions(corr, error, versions):
    """versions: [(api_key, min, max)]"""
    return struct.pack(">ih", corr, error) + enc_array([struct.pack(">hhh", k, lo, hi) for (k, lo, hi) in versions])
