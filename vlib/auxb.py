"""Run engine-B (symrun) scenarios as an auxiliary part of an engine-A/C harness.

An aux module provides scenario(job), jobs(tier), REQUIRED (monitor labels that must be evaluated), TAG (key put in
every violation so that the harness's replay() can route it back) and PREFIX (label prefix)."""
import importlib
import logging
import multiprocessing as mp
import os

from vlib.symrun import Explorer


def _job(a):
    modname, job = a
    logging.disable(logging.CRITICAL)
    mod = importlib.import_module(modname)
    ex = Explorer(mod.scenario(job), validate=getattr(mod, "VALIDATE", 3), max_seconds=getattr(mod, "MAX_SECONDS", 900)).run()
    st = ex.stats
    return {
        "job": job, "paths": st.paths, "decisions": st.decisions, "validated": st.validated, "queries": st.queries,
        "solver_s": st.solver_s, "errors": ex.errors + ([] if ex.complete else ["not exhausted"]),
        "violations": [dict(v.to_json(), job=job) for v in ex.violations], "checks": st.checks, "sample": ex.samples[:1],
    }


def run(modname, tier):
    mod = importlib.import_module(modname)
    js = mod.jobs(tier)
    nproc = min(len(js), int(os.environ.get("VERIF_PROCS", "16")))
    with mp.get_context("fork").Pool(nproc) as pool:
        rs = pool.map(_job, [(modname, j) for j in js])
    extra, checks = [], {}
    paths = decisions = validated = queries = 0
    for r in rs:
        for e in r["errors"]:
            extra.append({"kind": "error", "detail": "%s %r: %s" % (mod.PREFIX, r["job"], e)})
        for v in r["violations"]:
            extra.append({"kind": "violation", "label": mod.PREFIX + ": " + v["label"], "sig": v["sig"], "detail": v["detail"],
                          "reproduced": v["reproduced"], mod.TAG: True, "job": v["job"], "model": v["model"], "choices": v["choices"]})
        paths += r["paths"]
        decisions += r["decisions"]
        validated += r["validated"]
        queries += r["queries"]
        for k, c in r["checks"].items():
            checks[k] = checks.get(k, 0) + c[0]
    for lbl in mod.REQUIRED:
        if not checks.get(lbl):
            extra.append({"kind": "error", "detail": "vacuity: %s monitor %r never evaluated" % (mod.PREFIX, lbl)})
    cov = {mod.TAG: {"engine": "symrun", "jobs": len(js), "paths": paths, "decisions": decisions, "traces_validated_against_impl": validated,
                     "solver_queries": queries, "monitors": checks, "sample": rs[0]["sample"], "note": getattr(mod, "NOTE", "")}}
    return extra, cov


def replay(modname, v):
    from vlib.symrun import ConcCtx, core

    mod = importlib.import_module(modname)
    logging.disable(logging.CRITICAL)
    c = ConcCtx(v["model"], v["choices"])
    core._CTX = c
    try:
        mod.scenario(v["job"])(c)
    finally:
        core._CTX = None
    for e in c.events:
        print("  ", e)
    lbl = v["label"].replace(mod.PREFIX + ": ", "")
    if any(x[0] == lbl for x in c.failed):
        print("REPRODUCED label=%s" % v["label"])
        return 1
    print("not reproduced", c.failed)
    return 0
