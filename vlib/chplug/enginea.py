"""Engine A runner: obligations -> CrossHair -> evidence / exit code."""
import importlib
import json
import sys
import time

from .. import report
from . import driver


def main(modname, tier, extra_results=None, extra_cov=None):
    t0 = time.time()
    mod = importlib.import_module(modname)
    obs = mod.obligations(tier)
    res = driver.run_obligations(obs)
    by = {r["name"]: r for r in res}
    violations, errors = [], []
    discharged = 0
    secs = 0.0
    for ob in obs:
        r = by.get(ob["name"])
        if r is None:
            errors.append("obligation %r produced no result" % ob["name"])
            continue
        secs += r.get("seconds", 0) + r.get("twin_seconds", 0)
        if r["status"] == "discharged":
            discharged += 1
        elif r["status"] == "violated":
            violations.append(
                {
                    "label": "%s: %s" % (ob["fn"], _kind(r["cex"]["label"])),
                    "sig": ob["name"],
                    "detail": r["detail"],
                    "reproduced": True,
                    "obligation": ob,
                    "values": r["cex"]["values"],
                }
            )
        else:
            errors.append("%s: %s" % (ob["name"], r.get("detail", r)))
    for v in extra_results or []:
        if v.get("kind") == "violation":
            violations.append(v)
        elif v.get("kind") == "error":
            errors.append(v["detail"])
    slow = sorted(res, key=lambda r: -(r.get("seconds", 0)))[:5]
    coverage = {
        "explanation": "bounded SMT verification of the real functions: each obligation is one shape (counts, null/empty choices, "
        "string lengths) whose contents (every integer field, key/value/metadata byte) are z3 variables; an obligation is "
        "discharged only when CrossHair reports 'Confirmed over all paths' (all paths explored, no solver unknown) and its "
        "reachability twin is refuted.",
        "obligations": len(obs),
        "discharged": discharged,
        "checker_cmd": "./check %s --tier %s" % (mod.ID, tier),
        "trusted_base": [
            "crosshair-tool 0.0.110",
            "z3-solver 5.1.0",
            "vlib/chplug/plugin.py (linear struct model, abstract checksum, symbolic range)",
            "vlib/ref/kafka_ref.py (reference codec)",
        ],
        "evaluations": len(obs),
        "distinct_nontrivial": discharged,
        "rule": "one evaluation = one obligation (shape) with >=1 symbolic content variable; distinct by name; non-trivial = confirmed over all paths AND reachability twin refuted",
        "samples": [{"obligation": o["name"], "fn": o["fn"], "kwargs": o.get("kwargs", {})} for o in obs[:3]]
        + [{"slowest": s["name"], "seconds": s.get("seconds")} for s in slow[:2]],
        "solver_s": round(secs, 1),
        "functions_encoded": report.functions_encoded(mod.functions()) if hasattr(mod, "functions") else [],
        "bounds": getattr(mod, "BOUNDS", {}),
        "exhaustive": False,
    }
    if extra_cov:
        coverage.update(extra_cov)
    return report.finish(mod.ID, tier, "other", coverage, list(getattr(mod, "ASSUMPTIONS", [])), violations, errors, t0)


def _kind(label):
    """Normalise a counterexample label to its kind (strip values)."""
    s = str(label)
    for sep in (" (", ":"):
        if s.startswith("EXC "):
            return s.split(":")[0]
    return s.split(" (")[0][:80]


def replay_file(modname, path):
    mod = importlib.import_module(modname)
    with open(path) as f:
        v = json.load(f)
    ok, lbl = driver.replay(v["obligation"], v["values"])
    print("obligation:", v["obligation"]["name"])
    print("values:", v["values"])
    if ok:
        print("REPRODUCED property=%s label=%s -> %s" % (mod.ID, v["label"], lbl))
        return 1
    print("not reproduced:", lbl)
    return 0
