"""Engine A driver: runs obligations (harness bodies) under CrossHair in-process, in a pool.

An obligation is (name, module, function name, kwargs).  The function has the signature
``body(g, **kwargs) -> str`` where ``g`` supplies inputs: under CrossHair ``SymGen`` creates
fresh z3-backed values; in replay ``ConcGen`` feeds the recorded concrete values.  The body
returns "" when the property holds on the path and a short label otherwise.

Verdict per obligation:
  discharged     CrossHair: "Confirmed over all paths" (every path explored, no solver unknown)
  violated       a counterexample path whose recorded inputs, replayed on plain values with the
                 real struct/zlib, make the body return the same kind of non-empty label
  inconclusive   anything else (timeout, "not confirmed", counterexample that does not replay)
Every obligation also runs a reachability twin (the end of the body must be reachable).
"""
import importlib
import json
import logging
import multiprocessing as mp
import os
import time
import traceback

_STATE = {"gen": None, "cex": None}


class SymGen:
    symbolic = True

    def __init__(self):
        self.created = []  # (kind, name, value)

    def int(self, lo, hi, name="i"):
        from .plugin import fresh_int

        v = fresh_int(lo, hi, name)
        self.created.append(("int", name, v))
        return v

    def bool(self, name="b"):
        from .plugin import fresh_bool

        v = fresh_bool(name)
        self.created.append(("bool", name, v))
        return v

    def bytes(self, n, name="y"):
        from .plugin import fresh_bytes

        v = fresh_bytes(n, name)
        self.created.append(("bytes", name, v))
        return v

    def assume(self, c):
        from .plugin import assume

        assume(c)

    def realized(self):
        from crosshair.core import deep_realize, realize

        out = []
        for kind, name, v in self.created:
            r = deep_realize(v)
            if kind == "bytes":
                r = list(bytes(r))
            elif kind == "bool":
                r = bool(r)
            else:
                r = int(r)
            out.append([kind, name, r])
        return out


class ConcGen:
    symbolic = False

    def __init__(self, values):
        self.values = list(values)
        self.pos = 0
        self.ok = True

    def _next(self, kind):
        if self.pos >= len(self.values):
            self.ok = False
            return {"int": 0, "bool": False, "bytes": []}[kind]
        k, name, v = self.values[self.pos]
        self.pos += 1
        if k != kind:
            self.ok = False
        return v

    def int(self, lo, hi, name="i"):
        return int(self._next("int"))

    def bool(self, name="b"):
        return bool(self._next("bool"))

    def bytes(self, n, name="y"):
        return bytes(self._next("bytes"))

    def assume(self, c):
        if not c:
            self.ok = False


def _load(ob):
    mod = importlib.import_module(ob["module"])
    return mod, getattr(mod, ob["fn"])


def _run_one(ob):
    """Worker: returns dict(name, status, seconds, detail, cex)."""
    logging.disable(logging.CRITICAL)
    t0 = time.time()
    try:
        from crosshair.core_and_libs import analyze_function, run_checkables  # noqa: F401  (loads CrossHair's libs first)
        from crosshair.options import AnalysisOptionSet

        from . import plugin

        plugin.install(abstract_crc=ob.get("abstract_crc", True))
        if not plugin.installed():
            return {"name": ob["name"], "status": "inconclusive", "detail": "plugin registration lost", "seconds": 0}
        mod, body = _load(ob)
        if hasattr(mod, "setup_symbolic"):
            mod.setup_symbolic()
        kwargs = ob.get("kwargs", {})
        holder = {"cex": None, "ends": 0}

        def cond() -> str:
            """
            post: _ == ""
            """
            g = SymGen()
            try:
                r = body(g, **kwargs)
            except Exception as e:  # noqa  (CrossHair's own control flow uses BaseException)
                r = "EXC %s: %s" % (type(e).__name__, str(e)[:200])
            if r != "":
                holder["cex"] = {"label": str(r), "values": g.realized()}
            return r

        def twin() -> str:
            """
            post: _ == ""
            """
            g = SymGen()
            try:
                r = body(g, **kwargs)
            except Exception:  # noqa
                return ""
            return "reached" if r == "" else ""

        timeout = ob.get("timeout", 60)
        opts = AnalysisOptionSet(
            per_condition_timeout=timeout,
            per_path_timeout=max(5.0, timeout / 2.0),
            report_all=True,
            max_uninteresting_iterations=10**9,
        )
        msgs = run_checkables(analyze_function(cond, opts))
        states = [m.state.name for m in msgs]
        res = {"name": ob["name"], "seconds": round(time.time() - t0, 2), "states": states}
        if states == ["CONFIRMED"]:
            # vacuity twin: the end of the body must be reachable
            t1 = time.time()
            tm = run_checkables(
                analyze_function(
                    twin,
                    AnalysisOptionSet(
                        per_condition_timeout=timeout, per_path_timeout=max(5.0, timeout / 2.0), report_all=True,
                        max_uninteresting_iterations=10**9,
                    ),
                )
            )
            tstates = [m.state.name for m in tm]
            res["twin_seconds"] = round(time.time() - t1, 2)
            if tstates == ["POST_FAIL"]:
                res["status"] = "discharged"
            else:
                res["status"] = "inconclusive"
                res["detail"] = "vacuous: reachability twin came back %r" % (tstates,)
            return res
        if "POST_FAIL" in states and holder["cex"] is not None:
            cex = holder["cex"]
            res["cex"] = cex
            # replay on plain values with the real struct / zlib
            ok, lbl = replay(ob, cex["values"])
            res["replay_label"] = lbl
            if ok:
                res["status"] = "violated"
                res["detail"] = "%s | replay: %s" % (cex["label"], lbl)
            else:
                res["status"] = "inconclusive"
                res["detail"] = "counterexample %r did not replay (replay gave %r)" % (cex["label"], lbl)
            return res
        res["status"] = "inconclusive"
        res["detail"] = "CrossHair: %r %s" % (states, "; ".join(m.message[:300] for m in msgs))
        return res
    except BaseException as e:  # noqa
        return {
            "name": ob["name"],
            "status": "inconclusive",
            "seconds": round(time.time() - t0, 2),
            "detail": "driver crashed: %r\n%s" % (e, traceback.format_exc()[-1500:]),
        }


def replay(ob, values):
    """Run the body on plain values; patches are NOT active outside CrossHair's tracer, so the real
    struct and zlib are used."""
    mod, body = _load(ob)
    if hasattr(mod, "setup_concrete"):
        mod.setup_concrete()
    try:
        g = ConcGen(values)
        try:
            r = body(g, **ob.get("kwargs", {}))
        except Exception as e:  # noqa
            r = "EXC %s: %s" % (type(e).__name__, str(e)[:200])
        if not g.ok:
            return False, "replay consumed inputs differently"
        return (r != ""), r
    finally:
        if hasattr(mod, "setup_symbolic"):
            mod.setup_symbolic()


def run_obligations(obs, nproc=None):
    nproc = nproc or int(os.environ.get("VERIF_PROCS", "16"))
    ctx = mp.get_context("fork")
    # longest first
    obs = sorted(obs, key=lambda o: -o.get("timeout", 60))
    out = []
    with ctx.Pool(min(nproc, max(1, len(obs))), maxtasksperchild=20) as pool:
        for r in pool.imap_unordered(_run_one, obs, chunksize=1):
            out.append(r)
    return out
