"""Engine A plugin: afkak-specific models for CrossHair 0.0.110.

* struct.pack / unpack / iter_unpack / calcsize for big-endian integer formats: every packed
  integer of width w becomes w fresh byte variables 0..255 tied to the value by ONE linear
  equality (CrossHair's own model uses div/mod on z3 Int -> `unknown`).  Pure LIA.
* zlib.crc32 -> abstract checksum A(b) = len*1000003 + sum((31*(i+1)+1) * b_i)  (position
  sensitive, linear, < 2^32 for the sizes used).  `x & 0xFFFFFFFF` is the identity on it.
* fresh_int / fresh_bytes / fresh_bool: symbolic values created inside a harness.
* sym_range: while-loop generator bound over `range` in afkak.kafkacodec / afkak._util.

IMPORTANT: import this module only AFTER crosshair.core_and_libs (our registrations replace
CrossHair's own struct patches; the driver asserts that they are in force before each run).
"""
import struct
import zlib

import z3
from crosshair.core import _PATCH_REGISTRATIONS, realize
from crosshair.libimpl.builtinslib import SymbolicBool, SymbolicBytes, SymbolicInt
from crosshair.statespace import context_statespace
from crosshair.tracers import NoTracing, ResumedTracing, is_tracing

_SIZES = {"b": (1, True), "B": (1, False), "h": (2, True), "H": (2, False), "i": (4, True), "I": (4, False),
          "l": (4, True), "L": (4, False), "q": (8, True), "Q": (8, False), "?": (1, False)}

_REAL = {"pack": struct.pack, "unpack": struct.unpack, "iter_unpack": struct.iter_unpack, "calcsize": struct.calcsize,
         "crc32": zlib.crc32}


def _parse(fmt):
    if isinstance(fmt, bytes):
        fmt = fmt.decode("latin-1")
    if not fmt or fmt[0] not in ">!":
        return None
    items = []
    num = ""
    for ch in fmt[1:]:
        if ch.isdigit():
            num += ch
            continue
        if ch.isspace():
            continue
        if ch not in _SIZES:
            return None
        items.extend([ch] * (int(num) if num else 1))
        num = ""
    if num:
        return None
    return items


def _is_sym(x):
    with NoTracing():  # under tracing isinstance() is answered for the *pretended* type (int)
        return isinstance(x, (SymbolicInt, SymbolicBool))


def _z3int(x):
    if isinstance(x, SymbolicInt):
        return x.var
    if isinstance(x, SymbolicBool):
        return z3.If(x.var, z3.IntVal(1), z3.IntVal(0))
    return z3.IntVal(int(x))


def fresh_int(lo, hi, name="i"):
    with NoTracing():
        space = context_statespace()
        v = SymbolicInt(name + space.uniq())
        space.add(v.var >= lo)
        space.add(v.var <= hi)
        return v


def fresh_bool(name="b"):
    with NoTracing():
        space = context_statespace()
        return SymbolicBool(name + space.uniq())


def fresh_bytes(n, name="y"):
    """n symbolic bytes (concrete length)."""
    with NoTracing():
        space = context_statespace()
        cells = []
        for _ in range(n):
            v = SymbolicInt(name + space.uniq())
            space.add(v.var >= 0)
            space.add(v.var <= 255)
            cells.append(v)
        return SymbolicBytes(cells)


def assume(cond):
    """Add a constraint to the current path (harness-side preconditions on fresh values)."""
    with NoTracing():
        space = context_statespace()
        if isinstance(cond, SymbolicBool):
            space.add(cond.var)
        elif not cond:
            space.add(z3.BoolVal(False))


def _pack(fmt, *args):
    with NoTracing():
        f = realize(fmt)
        items = _parse(f)
        if items is None or not any(_is_sym(a) for a in args):
            return _REAL["pack"](f, *[realize(a) for a in args])
        if len(items) != len(args):
            raise struct.error("pack expected %d items for packing (got %d)" % (len(items), len(args)))
        space = context_statespace()
        out = []
    for ch, val in zip(items, args):
        size, signed = _SIZES[ch]
        if not _is_sym(val):
            out.extend(_REAL["pack"](">" + ch, val))
            continue
        with NoTracing():
            isb = isinstance(val, SymbolicBool)
        if isb:
            val = val + 0  # int(bool)
        lo = -(1 << (8 * size - 1)) if signed else 0
        hi = (1 << (8 * size - 1)) - 1 if signed else (1 << (8 * size)) - 1
        if val < lo or val > hi:  # traced comparison: forks, like CPython's range check
            raise struct.error("argument out of range")
        with NoTracing():
            cells = []
            total = None
            for i in range(size):
                b = SymbolicInt("pk" + space.uniq())
                space.add(b.var >= 0)
                space.add(b.var <= 255)
                cells.append(b)
                term = b.var * (1 << (8 * (size - 1 - i)))
                total = term if total is None else total + term
            v = _z3int(val)
            if signed:
                space.add(total == z3.If(v < 0, v + (1 << (8 * size)), v))
            else:
                space.add(total == v)
            out.extend(cells)
    with NoTracing():
        return SymbolicBytes(out)


def _cells(buffer, n):
    """first n cells of a bytes-like (concrete ints or SymbolicInt)."""
    return [buffer[i] for i in range(n)]


def _unpack_cells(items, cells):
    with NoTracing():
        res = []
        pos = 0
        for ch in items:
            size, signed = _SIZES[ch]
            chunk = cells[pos : pos + size]
            pos += size
            if not any(_is_sym(c) for c in chunk):
                res.append(_REAL["unpack"](">" + ch, bytes(int(c) for c in chunk))[0])
                continue
            total = None
            for i, c in enumerate(chunk):
                term = _z3int(c) * (1 << (8 * (size - 1 - i)))
                total = term if total is None else total + term
            if ch == "?":
                res.append(SymbolicBool(total != 0))
            elif signed:
                res.append(SymbolicInt(z3.If(total >= (1 << (8 * size - 1)), total - (1 << (8 * size)), total)))
            else:
                res.append(SymbolicInt(total))
        return tuple(res)


def _unpack(fmt, buffer):
    with NoTracing():
        f = realize(fmt)
        items = _parse(f)
        concrete = isinstance(buffer, (bytes, bytearray, memoryview))
    if items is None or concrete:
        with NoTracing():
            return _REAL["unpack"](f, realize(buffer))
    size = sum(_SIZES[ch][0] for ch in items)
    n = len(buffer)
    if n != size:
        raise struct.error("unpack requires a buffer of %d bytes" % size)
    cells = _cells(buffer, size)
    return _unpack_cells(items, cells)


def _iter_unpack(fmt, buffer):
    with NoTracing():
        f = realize(fmt)
        items = _parse(f)
        concrete = isinstance(buffer, (bytes, bytearray, memoryview))
    if items is None or concrete:
        with NoTracing():
            return iter(list(_REAL["iter_unpack"](f, realize(buffer))))
    size = sum(_SIZES[ch][0] for ch in items)
    n = len(buffer)
    if size == 0 or n % size != 0:
        raise struct.error("iterative unpacking requires a buffer of a multiple of %d bytes" % size)
    n = realize(n)
    cells = _cells(buffer, n)
    out = []
    for k in range(n // size):
        out.append(_unpack_cells(items, cells[k * size : (k + 1) * size]))
    return iter(out)


def _calcsize(fmt):
    with NoTracing():
        return _REAL["calcsize"](realize(fmt))


class ChecksumInt(SymbolicInt):
    """value of the abstract checksum: already in [0, 2^32), so `& 0xFFFFFFFF` is the identity"""

    def __and__(self, other):
        with NoTracing():
            if isinstance(other, int) and other == 0xFFFFFFFF:
                return SymbolicInt(self.var)
        return SymbolicInt.__and__(self, other)

    __rand__ = __and__


def abstract_checksum_cells(cells):
    """A(b) over a list of concrete/symbolic byte cells -> python int or z3 term"""
    n = len(cells)
    total = z3.IntVal(n * 1000003)
    conc = n * 1000003
    sym = False
    for i, c in enumerate(cells):
        w = 31 * (i + 1) + 1
        if _is_sym(c):
            sym = True
            total = total + _z3int(c) * w
        else:
            total = total + int(c) * w
            conc += int(c) * w
    return (total if sym else conc), sym


def _crc32(data, value=0):
    with NoTracing():
        concrete = isinstance(data, (bytes, bytearray, memoryview))
    n = realize(len(data))
    if n > 4096:
        raise ValueError("abstract checksum: buffer too large for the harness bound")
    cells = _cells(data, n)
    with NoTracing():
        v, sym = abstract_checksum_cells(cells)
        if not sym:
            return v & 0xFFFFFFFF if v >= (1 << 32) else v
        return ChecksumInt(v)


def concrete_abstract_checksum(data):
    """The same abstract checksum on concrete bytes (used by harness-side reference code run outside tracing)."""
    v, _ = abstract_checksum_cells(list(data))
    return v & 0xFFFFFFFF


def sym_range(*args):
    """range() replacement that forks on `i < stop` instead of realising a symbolic stop"""
    if len(args) == 1:
        start, stop, step = 0, args[0], 1
    elif len(args) == 2:
        start, stop = args
        step = 1
    else:
        start, stop, step = args
    if not (_is_sym(start) or _is_sym(stop) or _is_sym(step)):
        return range(start, stop, step)

    def gen():
        i = start
        if step > 0:
            while i < stop:
                yield i
                i += step
        else:
            while i > stop:
                yield i
                i += step

    return gen()


def install(abstract_crc=True):
    """Register the patches (overriding CrossHair's own struct model)."""
    _PATCH_REGISTRATIONS[struct.pack] = _pack
    _PATCH_REGISTRATIONS[struct.unpack] = _unpack
    _PATCH_REGISTRATIONS[struct.iter_unpack] = _iter_unpack
    _PATCH_REGISTRATIONS[struct.calcsize] = _calcsize
    if abstract_crc:
        _PATCH_REGISTRATIONS[zlib.crc32] = _crc32
    else:
        _PATCH_REGISTRATIONS.pop(zlib.crc32, None)


def installed():
    return _PATCH_REGISTRATIONS.get(struct.pack) is _pack and _PATCH_REGISTRATIONS.get(struct.unpack) is _unpack
