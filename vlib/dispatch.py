"""./check <ID> dispatch: which engine/harness decides which property."""
import importlib
import sys

# engine: 'b' = symrun (runner_b), 'm' = module with main(tier)/replay(path)
TABLE = {}


def register():
    import os

    hd = os.path.join(os.path.dirname(os.path.dirname(os.path.abspath(__file__))), "harness")
    for fn in sorted(os.listdir(hd)):
        if fn.startswith("C") and fn.endswith(".py"):
            pid = fn[:3]
            TABLE[pid] = "harness." + fn[:-3]


def main():
    register()
    pid, tier = sys.argv[1], sys.argv[2]
    rp = sys.argv[3] if len(sys.argv) > 3 else ""
    if pid not in TABLE:
        print("no check for", pid)
        return 2
    modname = TABLE[pid]
    mod = importlib.import_module(modname)
    if getattr(mod, "ENGINE", "b") == "b":
        from . import runner_b

        if rp:
            return runner_b.replay(modname, rp)
        return runner_b.main(modname, tier)
    if rp:
        return mod.replay(rp)
    return mod.main(tier)


if __name__ == "__main__":
    sys.exit(main())
