"""Self-tests of engine B: run on every check start (cheap, <1 s)."""
from . import Explorer, SymbolicLeak, sym_min


def _toy_tree(ctx):
    # 3 binary forks on data (one combination infeasible) + a 3-way choice -> 21 paths
    x = ctx.int("x", 0, 100)
    y = ctx.int("y", 0, 100)
    n = 0
    if x < 10:
        n += 1
    if y > x:
        n += 2
    if x + y == 50:
        n += 4
    c = ctx.choose("c", 3)
    ctx.log("leaf", n, c, x + y)
    ctx.check(x + y <= 200, "bound")


def _toy_needle(ctx):
    off = ctx.int("off", -(2**63), 2**63 - 1)
    r = off + (1 if off == 2**40 else 0)
    ctx.sig("needle")
    ctx.check(r == off, "identity", "r != off")


def _toy_pruned(ctx):
    x = ctx.int("x", 0, 5)
    a = x > 3
    if a:
        if x < 2:  # infeasible: must not fork
            ctx.check(False, "unreachable")
    k = ctx.choose("k", 4)
    ctx.assume(ctx.int("budget", 0, 1) + k <= 2)  # k in {0,1,2}
    ctx.log("k", k)


def _toy_leak(ctx):
    x = ctx.int("x", 0, 5)
    try:
        [1, 2, 3, 4, 5, 6][x]
    except SymbolicLeak:
        pass  # swallowed, as Twisted would; must still be loud


def _toy_min(ctx):
    a = ctx.int("a", 0, 10)
    b = ctx.int("b", 0, 10)
    m = sym_min(a * 3, b + 7)
    ctx.check(m <= a * 3, "min1")
    ctx.check(m <= b + 7, "min2")
    ctx.log("m", m)


def _toy_split(ctx):
    x = ctx.int("x", 0, 9)
    a = ctx.choose("a", 3)
    if a == 0 and x > 4:
        ctx.log("short")
        return  # a path with fewer choices than the split depth
    b = ctx.choose("b", 2, enabled=[0, 1] if x > 2 else [1])
    c = ctx.choose("c", 2)
    ctx.log("leaf", a, b, c)


def run():
    e = Explorer(_toy_split).run()
    assert e.complete and not e.errors
    total = e.stats.paths
    pr = Explorer(_toy_split, validate=0, probe_depth=2).run()
    assert pr.complete and pr.prefixes, pr.errors
    got = 0
    for pf in sorted(pr.prefixes):
        sub = Explorer(_toy_split, forced=(pf, 2)).run()
        assert sub.complete and not sub.errors, sub.errors
        got += sub.stats.paths
    assert got == total, (got, total, sorted(pr.prefixes))

    e = Explorer(_toy_tree).run()
    assert e.complete and not e.errors, e.errors
    assert e.stats.paths == 21, e.stats.paths  # (x<10, y<=x, x+y==50) is infeasible: 7 x 3
    assert e.stats.validated == 21
    assert not e.violations
    e = Explorer(_toy_needle).run()
    assert e.complete and not e.errors, e.errors
    assert len(e.violations) == 1 and e.violations[0].reproduced, e.violations
    assert e.violations[0].model["off#0"] == 2**40
    e = Explorer(_toy_pruned).run()
    assert e.complete and not e.errors, e.errors
    assert not e.violations
    # x>3 / x<=3 fork (2) x k in {0,1,2} (3)
    assert e.stats.paths == 6, (e.stats.paths, e.stats.dead_paths)
    e = Explorer(_toy_leak).run()
    assert e.errors and "leak" in e.errors[0]
    e = Explorer(_toy_min).run()
    assert e.complete and not e.errors and not e.violations, (e.errors, e.violations)
    return True


if __name__ == "__main__":
    run()
    print("symrun selftest ok")
