from .core import *  # noqa
from .core import (SymInt, SymReal, SymBool, SymbolicLeak, HarnessError, Explorer, ConcCtx, SymCtx, cur,
                   sym_min, sym_max, sym_ite, sym_and, sym_or, sym_not, sym_implies)
