"""
symrun -- engine B: proxy-based dynamic symbolic execution of real Python objects.

The code under test is the real afkak code imported from /repo.  Only *inputs and
environment* are symbolic:

* ``SymInt`` / ``SymReal`` / ``SymBool`` wrap z3 terms.  ``SymBool.__bool__`` asks the
  solver which sides are feasible under the current path condition and forks.
* Exploration is depth-first by re-execution: every path re-runs the scenario from a
  fresh world following a recorded decision trail; the z3 solver's push/pop stack is kept
  aligned with the trail, so the solver is consulted only for new tree edges.
* No exception is used for path control (Twisted swallows exceptions raised in
  callbacks, BaseException included).  Dead paths are flagged.
* A symbolic value can never be silently concretised: ``__index__``, ``__int__``,
  ``__float__``, ``__hash__`` record a *leak* and the path ends as a harness error.
* Monitors ``ctx.check(cond, label)`` on symbolic conditions are solver queries; a
  feasible negation gives a model which is replayed concretely (plain int/float values,
  the same scenario function, the same recorded choices) before anything is reported.
"""
from __future__ import annotations

import time
import traceback
from fractions import Fraction

import z3


class SymbolicLeak(Exception):
    """A symbolic value reached code that needs a concrete machine value."""


class HarnessError(Exception):
    """The harness or engine is wrong (divergent replay, leak, unsupported op)."""


_CTX = None  # the active Ctx (one per process; exploration is single-threaded)


def cur():
    return _CTX


# --------------------------------------------------------------------------- values


def _is_sym(x):
    return isinstance(x, (SymInt, SymReal, SymBool))


def _leak(what):
    c = _CTX
    msg = "symbolic value leaked into %s\n%s" % (what, "".join(traceback.format_stack(limit=12)))
    if c is not None:
        c.leaks.append(msg)
    raise SymbolicLeak(msg)


class SymBool:
    __slots__ = ("t",)

    def __init__(self, t):
        self.t = t

    def __bool__(self):
        return _CTX.branch(self.t)

    def __invert__(self):
        return SymBool(z3.Not(self.t))

    def __and__(self, o):
        return SymBool(z3.And(self.t, _b(o)))

    __rand__ = __and__

    def __or__(self, o):
        return SymBool(z3.Or(self.t, _b(o)))

    __ror__ = __or__

    def __eq__(self, o):
        if isinstance(o, (bool, SymBool)):
            return SymBool(self.t == _b(o))
        return False

    def __ne__(self, o):
        if isinstance(o, (bool, SymBool)):
            return SymBool(self.t != _b(o))
        return True

    def __hash__(self):
        _leak("hash(SymBool)")

    def __repr__(self):
        x = self.t.sexpr()
        return "<SymBool %s>" % (x if len(x) <= 120 else x[:117] + "...")

    __str__ = __repr__


def _b(x):
    if isinstance(x, SymBool):
        return x.t
    if isinstance(x, bool):
        return z3.BoolVal(x)
    if z3.is_bool(x):
        return x
    raise HarnessError("not a boolean: %r" % (x,))


def sym_not(x):
    if isinstance(x, SymBool):
        return SymBool(z3.Not(x.t))
    return not x


def sym_and(*xs):
    if any(isinstance(x, SymBool) for x in xs):
        if any(x is False for x in xs):
            return False
        return SymBool(z3.And(*[_b(x) for x in xs if x is not True]))
    return all(xs)


def sym_or(*xs):
    if any(isinstance(x, SymBool) for x in xs):
        if any(x is True for x in xs):
            return True
        return SymBool(z3.Or(*[_b(x) for x in xs if x is not False]))
    return any(xs)


def sym_implies(a, b):
    return sym_or(sym_not(a), b)


class _SymNum:
    __slots__ = ("t",)
    _is_int = True

    def __init__(self, t):
        self.t = t

    # -- coercion of the other operand -------------------------------------------------
    def _co(self, o):
        """-> (z3 term, is_real) or None when o is not numeric."""
        if isinstance(o, _SymNum):
            return o.t, not o._is_int
        if isinstance(o, bool):
            return z3.IntVal(int(o)), False
        if isinstance(o, int):
            return z3.IntVal(o), False
        if isinstance(o, float):
            fr = Fraction(o)
            return z3.RealVal("%d/%d" % (fr.numerator, fr.denominator)), True
        if isinstance(o, Fraction):
            return z3.RealVal("%d/%d" % (o.numerator, o.denominator)), True
        return None

    def _mk(self, t, real):
        return SymReal(t) if real else SymInt(t)

    def _pair(self, o):
        c = self._co(o)
        if c is None:
            return None
        ot, oreal = c
        st = self.t
        real = oreal or not self._is_int
        if real:
            if self._is_int:
                st = z3.ToReal(st)
            if not oreal:
                ot = z3.ToReal(ot)
        return st, ot, real

    # -- arithmetic ----------------------------------------------------------------
    def __add__(self, o):
        p = self._pair(o)
        if p is None:
            return NotImplemented
        return self._mk(p[0] + p[1], p[2])

    __radd__ = __add__

    def __sub__(self, o):
        p = self._pair(o)
        if p is None:
            return NotImplemented
        return self._mk(p[0] - p[1], p[2])

    def __rsub__(self, o):
        p = self._pair(o)
        if p is None:
            return NotImplemented
        return self._mk(p[1] - p[0], p[2])

    def __mul__(self, o):
        p = self._pair(o)
        if p is None:
            return NotImplemented
        return self._mk(p[0] * p[1], p[2])

    __rmul__ = __mul__

    def __neg__(self):
        return self._mk(-self.t, not self._is_int)

    def __pos__(self):
        return self

    def __abs__(self):
        return self._mk(z3.If(self.t >= 0, self.t, -self.t), not self._is_int)

    def __floordiv__(self, o):
        if self._is_int and isinstance(o, int) and not isinstance(o, bool) and o > 0:
            return SymInt(self.t / z3.IntVal(o))  # z3 int div == floor for positive divisor
        raise HarnessError("unsupported // on symbolic value by %r" % (o,))

    def __mod__(self, o):
        if self._is_int and isinstance(o, int) and not isinstance(o, bool) and o > 0:
            return SymInt(self.t % z3.IntVal(o))
        raise HarnessError("unsupported %% on symbolic value by %r" % (o,))

    def __truediv__(self, o):
        p = self._pair(o)
        if p is None:
            return NotImplemented
        a, b, _ = p
        if isinstance(o, _SymNum):
            raise HarnessError("symbolic / symbolic unsupported")
        a = z3.ToReal(a) if a.is_int() else a
        b = z3.ToReal(b) if b.is_int() else b
        return SymReal(a / b)

    # -- comparisons ---------------------------------------------------------------
    def _cmp(self, o, op):
        p = self._pair(o)
        if p is None:
            return NotImplemented
        return SymBool(op(p[0], p[1]))

    def __lt__(self, o):
        return self._cmp(o, lambda a, b: a < b)

    def __le__(self, o):
        return self._cmp(o, lambda a, b: a <= b)

    def __gt__(self, o):
        return self._cmp(o, lambda a, b: a > b)

    def __ge__(self, o):
        return self._cmp(o, lambda a, b: a >= b)

    def __eq__(self, o):
        p = self._pair(o)
        if p is None:
            return False
        return SymBool(p[0] == p[1])

    def __ne__(self, o):
        p = self._pair(o)
        if p is None:
            return True
        return SymBool(p[0] != p[1])

    def __bool__(self):
        return _CTX.branch(self.t != 0)

    # -- things that must never happen silently ------------------------------------------
    def __hash__(self):
        _leak("hash()")

    def __index__(self):
        _leak("__index__ (struct/slice/range)")

    def __int__(self):
        _leak("int()")

    def __float__(self):
        _leak("float()")

    def __trunc__(self):
        _leak("trunc()")

    # -- formatting is harmless (messages only) --------------------------------------
    def __repr__(self):
        x = self.t.sexpr()  # C-side printer: cheap (the Python pretty-printer is not)
        return "<sym %s>" % (x if len(x) <= 120 else x[:117] + "...")

    __str__ = __repr__

    def __format__(self, spec):
        return "<sym>"


class SymInt(_SymNum):
    __slots__ = ()
    _is_int = True

    # isinstance(x, int) / numbers.Integral in the code under test must pass
    @property
    def __class__(self):
        return int


class SymReal(_SymNum):
    __slots__ = ()
    _is_int = False

    @property
    def __class__(self):
        return float


def _term(x):
    """-> (z3 term, is_real) for a symbolic or plain number."""
    if isinstance(x, _SymNum):
        return x.t, not x._is_int
    c = _SymNum._co(None, x)
    if c is None:
        raise HarnessError("not a number: %r" % (x,))
    return c


def _unify(a, b):
    ta, ra = _term(a)
    tb, rb = _term(b)
    real = ra or rb
    if real:
        if not ra:
            ta = z3.ToReal(ta)
        if not rb:
            tb = z3.ToReal(tb)
    return ta, tb, real


def sym_min(a, b):
    if _is_sym(a) or _is_sym(b):
        ta, tb, real = _unify(a, b)
        return (SymReal if real else SymInt)(z3.If(ta <= tb, ta, tb))
    return min(a, b)


def sym_max(a, b):
    if _is_sym(a) or _is_sym(b):
        ta, tb, real = _unify(a, b)
        return (SymReal if real else SymInt)(z3.If(ta >= tb, ta, tb))
    return max(a, b)


def sym_ite(c, a, b):
    if isinstance(c, SymBool):
        ta, tb, real = _unify(a, b)
        return (SymReal if real else SymInt)(z3.If(c.t, ta, tb))
    return a if c else b


# --------------------------------------------------------------------------- context


class Decision:
    __slots__ = ("kind", "key", "value", "alts", "forced", "term")

    def __init__(self, kind, key, value, alts, forced, term=None):
        self.term = term
        self.kind = kind  # 'b' bool branch, 'c' choice
        self.key = key  # z3 ast id or (name, n): divergence detection
        self.value = value
        self.alts = alts  # remaining alternative values (list) -- still to explore
        self.forced = forced  # True when no frame was pushed for it

    def __repr__(self):
        return "%s%s=%r%s" % (self.kind, "!" if self.forced else "", self.value, self.alts or "")


class Stats:
    def __init__(self):
        self.paths = 0
        self.dead_paths = 0
        self.decisions = 0
        self.forks = 0
        self.q_sat = 0
        self.q_unsat = 0
        self.q_unknown = 0
        self.solver_s = 0.0
        self.checks = {}  # label -> [times evaluated, times symbolic]
        self.sym_vars = set()
        self.choice_vars = set()
        self.validated = 0

    def merge(self, o):
        self.paths += o.paths
        self.dead_paths += o.dead_paths
        self.decisions += o.decisions
        self.forks += o.forks
        self.q_sat += o.q_sat
        self.q_unsat += o.q_unsat
        self.q_unknown += o.q_unknown
        self.solver_s += o.solver_s
        for k, v in o.checks.items():
            a = self.checks.setdefault(k, [0, 0])
            a[0] += v[0]
            a[1] += v[1]
        self.sym_vars |= o.sym_vars
        self.choice_vars |= o.choice_vars
        self.validated += o.validated

    @property
    def queries(self):
        return self.q_sat + self.q_unsat + self.q_unknown


class Violation:
    def __init__(self, label, sig, detail, model, trail, events):
        self.label = label
        self.sig = sig
        self.detail = detail
        self.model = model  # {varname: python value}
        self.trail = trail  # [(kind, value)]
        self.events = events
        self.reproduced = None
        self.job = None

    def to_json(self):
        return {
            "label": self.label,
            "sig": self.sig,
            "detail": self.detail,
            "model": self.model,
            "choices": [v for k, v in self.trail if k == "c"],
            "events": self.events[-40:],
            "reproduced": self.reproduced,
            "job": self.job,
        }


class BaseCtx:
    """API shared by symbolic and concrete contexts; scenarios only use this."""

    symbolic = False

    def __init__(self):
        self.events = []  # observable event log
        self.violations = []
        self.leaks = []
        self.dead = False
        self.notes = {}
        self._names = {}

    def _name(self, base):
        n = self._names.get(base, 0)
        self._names[base] = n + 1
        return "%s#%d" % (base, n)

    def log(self, *ev):
        self.events.append(ev)

    def sig(self, s):
        """Set the call-site signature attached to violations found from now on."""
        self.notes["sig"] = s


class SymCtx(BaseCtx):
    symbolic = True

    def __init__(self, solver, prefix, stats, solver_depth, timeout_ms=20000):
        super().__init__()
        self.s = solver
        self.prefix = prefix  # list[Decision] to replay
        self.pos = 0
        self.trail = []
        self.stats = stats
        self.depth = solver_depth  # number of frames currently on the solver
        self.vars = {}  # name -> z3 const
        self.timeout_ms = timeout_ms
        self.nchoices = 0
        self.failed_in_prefix = False
        self.forced = None  # (prefix values, depth): explore only paths whose first choices equal the prefix
        self.probe_depth = None  # cut every path after this many choices (used to enumerate prefixes)
        self.cut = False

    # ---- solver helpers --------------------------------------------------------------
    def _check(self, *assumptions):
        t0 = time.perf_counter()
        r = self.s.check(*assumptions)
        self.stats.solver_s += time.perf_counter() - t0
        if r == z3.sat:
            self.stats.q_sat += 1
        elif r == z3.unsat:
            self.stats.q_unsat += 1
        else:
            self.stats.q_unknown += 1
            raise HarnessError("solver returned unknown: %s" % self.s.reason_unknown())
        return r == z3.sat

    def _push(self, term):
        self.s.push()
        self.s.add(term)
        self.depth += 1

    # ---- fresh symbolic inputs --------------------------------------------------------
    def int(self, name, lo=None, hi=None):
        n = self._name(name)
        v = z3.Int(n)
        self.vars[n] = v
        self.stats.sym_vars.add(name)
        cs = []
        if lo is not None:
            cs.append(v >= lo)
        if hi is not None:
            cs.append(v <= hi)
        if cs:
            self._constrain(z3.And(*cs) if len(cs) > 1 else cs[0], ("dom", n))
        return SymInt(v)

    def real(self, name, lo=None, hi=None):
        n = self._name(name)
        v = z3.Real(n)
        self.vars[n] = v
        self.stats.sym_vars.add(name)
        cs = []
        if lo is not None:
            cs.append(v >= lo)
        if hi is not None:
            cs.append(v <= hi)
        if cs:
            self._constrain(z3.And(*cs) if len(cs) > 1 else cs[0], ("dom", n))
        return SymReal(v)

    def bool(self, name):
        n = self._name(name)
        v = z3.Bool(n)
        self.vars[n] = v
        self.stats.sym_vars.add(name)
        return SymBool(v)

    def _constrain(self, term, key):
        """Add a constraint to the path condition (recorded as a forced decision so the
        solver stack stays aligned with the trail on replay)."""
        if self.dead:
            return
        if self.pos < len(self.prefix):
            d = self.prefix[self.pos]
            if d.kind != "a" or d.key != term.get_id():
                raise HarnessError("replay diverged at constraint %r (have %r)" % (key, d))
            self.pos += 1
            self.trail.append(d)
            return
        self._push(term)
        self.trail.append(Decision("a", term.get_id(), None, None, False, term))

    def assume(self, cond):
        """Restrict the path.  Infeasible -> the path is dead (flag, no exception)."""
        if self.dead:
            return False
        if isinstance(cond, bool):
            if not cond:
                self.dead = True
            return cond
        t = _b(cond)
        if self.pos < len(self.prefix):
            self._constrain(t, "assume")
            return True
        if not self._check(t):
            self.dead = True
            return False
        self._constrain(t, "assume")
        return True

    # ---- forking ------------------------------------------------------------------------
    def branch(self, term):
        if self.dead:
            return False
        self.stats.decisions += 1
        if self.pos < len(self.prefix):
            d = self.prefix[self.pos]
            if d.kind != "b" or d.key != term.get_id():
                raise HarnessError("replay diverged at branch %s (recorded %r)" % (term.sexpr()[:200], d))
            self.pos += 1
            self.trail.append(d)
            return d.value
        can_t = self._check(term)
        can_f = self._check(z3.Not(term))
        if can_t and can_f:
            self.stats.forks += 1
            self._push(term)
            self.trail.append(Decision("b", term.get_id(), True, [False], False, term))
            return True
        if not can_t and not can_f:
            raise HarnessError("path condition became unsatisfiable")
        val = can_t
        self.trail.append(Decision("b", term.get_id(), val, None, True, term))
        return val

    def choose(self, name, n, enabled=None):
        """A symbolic finite-domain choice (schedule step, fault, shape): a fresh integer
        variable 0 <= c < n; the solver decides which values are feasible (together with
        whatever budget / symmetry constraints were assumed), one child per value."""
        if self.dead:
            return 0 if enabled is None else (enabled[0] if enabled else 0)
        nm = self._name(name)
        v = z3.Int(nm)
        self.vars[nm] = v
        self.stats.choice_vars.add(name)
        self.stats.decisions += 1
        key = ("c", nm, n)
        if self.pos < len(self.prefix):
            self.nchoices += 1
            d = self.prefix[self.pos]
            if d.kind != "c" or d.key != key:
                raise HarnessError("replay diverged at choice %r (recorded %r)" % (key, d))
            self.pos += 1
            self.trail.append(d)
            return d.value
        dom = list(range(n)) if enabled is None else list(enabled)
        idx = self.nchoices
        if self.probe_depth is not None and idx >= self.probe_depth:
            self.dead = self.cut = True
            return dom[0] if dom else 0
        if self.forced is not None:
            fv, fd = self.forced
            if idx < len(fv):
                dom = [k for k in dom if k == fv[idx]]
            elif idx < fd:
                dom = []  # this path belongs to the job of a longer prefix
            if not dom:
                self.dead = True
                return 0 if enabled is None else (list(enabled)[0] if enabled else 0)
        feas = [k for k in dom if self._check(v == k)]
        if not feas:
            self.dead = True
            return dom[0] if dom else 0
        if len(feas) > 1:
            self.stats.forks += 1
        self._push(v == feas[0])
        self.trail.append(Decision("c", key, feas[0], feas[1:], False))
        self.nchoices += 1
        return feas[0]

    # ---- monitors -----------------------------------------------------------------------
    def check(self, cond, label, detail=""):
        if self.dead:
            return True
        st = self.stats.checks.setdefault(label, [0, 0])
        st[0] += 1
        if isinstance(cond, SymBool):
            st[1] += 1
            if self.pos < len(self.prefix):
                # already examined on an earlier visit of this prefix
                self._constrain(cond.t, "chk")
                return True
            if self._check(z3.Not(cond.t)):
                self._record_violation(label, detail, z3.Not(cond.t))
                if not self._check(cond.t):
                    self.dead = True
                    return False
            self._constrain(cond.t, "chk")
            return True
        if not cond:
            if self.pos < len(self.prefix):
                # this failure was recorded when the prefix was first explored; remember that the path is a failing one
                self.failed_in_prefix = True
                return False
            self._record_violation(label, detail, None)
            return False
        return True

    def model_values(self, extra=None):
        t0 = time.perf_counter()
        r = self.s.check(*([extra] if extra is not None else []))
        self.stats.solver_s += time.perf_counter() - t0
        if r != z3.sat:
            raise HarnessError("no model for a feasible path")
        m = self.s.model()
        out = {}
        for n, v in self.vars.items():
            val = m.eval(v, model_completion=True)
            if z3.is_int_value(val):
                out[n] = val.as_long()
            elif z3.is_rational_value(val):
                out[n] = [val.numerator_as_long(), val.denominator_as_long()]
            elif z3.is_true(val) or z3.is_false(val):
                out[n] = bool(z3.is_true(val))
            else:
                out[n] = str(val)
        return out

    def _record_violation(self, label, detail, extra):
        mv = self.model_values(extra)
        trail = [(d.kind, d.value) for d in self.trail]
        self.violations.append(
            Violation(label, self.notes.get("sig", ""), str(detail), mv, trail, [_ev_str(e) for e in self.events])
        )

    def concrete(self, x):
        return x  # identity in symbolic mode


def _ev_str(e):
    return " ".join(str(x) for x in e)


class ConcCtx(BaseCtx):
    """Replays one path on plain Python values."""

    symbolic = False

    def __init__(self, model, choices):
        super().__init__()
        self.model = model
        self.choices = list(choices)
        self.cpos = 0
        self.failed = []

    def _val(self, n, default=0):
        v = self.model.get(n, default)
        if isinstance(v, list):
            return Fraction(v[0], v[1])
        return v

    def int(self, name, lo=None, hi=None):
        n = self._name(name)
        v = self._val(n, lo if lo is not None else 0)
        if (lo is not None and v < lo) or (hi is not None and v > hi):
            self.dead = True
        return v

    def real(self, name, lo=None, hi=None):
        n = self._name(name)
        v = self._val(n, lo if lo is not None else 0)
        # exact rationals: the replay must take the same side of every comparison as the model did
        return v if isinstance(v, Fraction) else Fraction(v)

    def bool(self, name):
        n = self._name(name)
        return bool(self._val(n, False))

    def assume(self, cond):
        if not cond:
            self.dead = True
        return bool(cond)

    def choose(self, name, n, enabled=None):
        self._name(name)
        if self.cpos < len(self.choices):
            v = self.choices[self.cpos]
            self.cpos += 1
            return v
        self.dead = True
        return 0 if enabled is None else (enabled[0] if enabled else 0)

    def check(self, cond, label, detail=""):
        if self.dead:
            return True
        if not cond:
            self.failed.append((label, self.notes.get("sig", ""), str(detail)))
            return False
        return True

    def concrete(self, x):
        return x


# --------------------------------------------------------------------------- explorer


class Explorer:
    def __init__(self, scenario, max_paths=None, max_seconds=None, validate="all", solver_timeout_ms=20000,
                 forced=None, probe_depth=None):
        """scenario(ctx) -> None.  validate: 'all' | int (every n-th path) | 0."""
        self.scenario = scenario
        self.max_paths = max_paths
        self.max_seconds = max_seconds
        self.validate = validate
        self.stats = Stats()
        self.violations = []
        self.samples = []
        self.errors = []
        self.complete = False
        self.solver_timeout_ms = solver_timeout_ms
        self._unrepro = {}
        self.forced = forced
        self.probe_depth = probe_depth
        self.prefixes = set()

    def _run_scenario(self, ctx):
        global _CTX
        prev = _CTX
        _CTX = ctx
        try:
            self.scenario(ctx)
        finally:
            _CTX = prev

    def run(self):
        s = z3.Solver()
        s.set("timeout", self.solver_timeout_ms)
        prefix = []
        depth = 0
        t0 = time.time()
        seen_sigs = set()
        while True:
            ctx = SymCtx(s, prefix, self.stats, depth)
            ctx.forced = self.forced
            ctx.probe_depth = self.probe_depth
            try:
                self._run_scenario(ctx)
            except SymbolicLeak as e:
                self.errors.append("leak: %s" % e)
                return self
            except HarnessError as e:
                self.errors.append("harness error: %s\n%s" % (e, traceback.format_exc()))
                return self
            if ctx.leaks:
                self.errors.append("leak (swallowed by code under test): %s" % ctx.leaks[0])
                return self
            if ctx.pos < len(prefix):
                self.errors.append("replay ended before the recorded prefix was consumed (nondeterminism)")
                return self
            depth = ctx.depth
            if self.forced is not None and ctx.nchoices < len(self.forced[0]):
                # ended before consuming the forced prefix: belongs to the job of the shorter prefix
                ctx.violations = []
                ctx.dead = True
            if self.probe_depth is not None:
                if ctx.cut or not ctx.dead:
                    self.prefixes.add(tuple(d.value for d in ctx.trail if d.kind == "c")[: self.probe_depth])
                ctx.violations = []
                ctx.dead = True
            if ctx.dead and not ctx.violations:
                self.stats.dead_paths += 1
            else:
                self.stats.paths += 1
                for v in ctx.violations:
                    key = (v.label, v.sig)
                    if key in seen_sigs:
                        continue
                    if self._unrepro.get(key, 0) >= 5:
                        continue
                    v.reproduced = self._replay_violation(v)
                    if v.reproduced:
                        seen_sigs.add(key)
                        self.violations = [w for w in self.violations if (w.label, w.sig) != key]
                        self.violations.append(v)
                    else:
                        n = self._unrepro.get(key, 0)
                        self._unrepro[key] = n + 1
                        if n == 0:
                            self.violations.append(v)
                do_val = self.validate == "all" or (
                    isinstance(self.validate, int) and self.validate > 0 and self.stats.paths % self.validate == 1
                )
                if (do_val or len(self.samples) < 3) and not ctx.violations and not ctx.failed_in_prefix:
                    try:
                        mv = ctx.model_values()
                        sym_events = [_ev_eval(e, mv, ctx) for e in ctx.events]
                    except HarnessError as e:
                        self.errors.append(str(e))
                        return self
                    choices = [d.value for d in ctx.trail if d.kind == "c"]
                    if do_val:
                        err = self._validate_path(sym_events, mv, choices)
                        if err:
                            self.errors.append(err + " | model=%r choices=%r" % (mv, choices))
                            return self
                        self.stats.validated += 1
                    if len(self.samples) < 3:
                        self.samples.append(
                            {"model": mv, "choices": choices, "events": [_ev_str(e) for e in sym_events][:40]}
                        )
            # backtrack
            trail = ctx.trail
            while trail and not trail[-1].alts:
                d = trail.pop()
                if not d.forced:
                    s.pop()
                    depth -= 1
            if not trail:
                self.complete = True
                return self
            d = trail[-1]
            s.pop()
            depth -= 1
            nv = d.alts[0]
            nd = Decision(d.kind, d.key, nv, d.alts[1:], False, d.term)
            if d.kind == "b":
                term = d.term
                s.push()
                s.add(term if nv else z3.Not(term))
            else:
                _, nm, n = d.key
                s.push()
                s.add(z3.Int(nm) == nv)
            depth += 1
            trail[-1] = nd
            prefix = trail
            if self.max_paths and self.stats.paths + self.stats.dead_paths >= self.max_paths:
                return self
            if self.max_seconds and time.time() - t0 > self.max_seconds:
                return self

    # ---- concrete replays --------------------------------------------------------------
    def _replay_violation(self, v):
        c = ConcCtx(v.model, [val for k, val in v.trail if k == "c"])
        try:
            self._run_scenario(c)
        except Exception as e:  # noqa
            v.detail += " | concrete replay raised %r" % (e,)
            return False
        for (label, sig, detail) in c.failed:
            if label == v.label:
                v.detail += " | concrete: " + detail
                v.events = [_ev_str(e) for e in c.events]
                return True
        return False

    def _validate_path(self, sym_events, mv, choices):
        c = ConcCtx(mv, choices)
        try:
            self._run_scenario(c)
        except Exception as e:  # noqa
            return "trace validation: concrete replay raised %r\n%s" % (e, traceback.format_exc())
        if c.failed:
            return "trace validation: concrete replay violates %r on a path the symbolic run passed" % (c.failed[0],)
        if c.dead:
            return "trace validation: concrete replay went dead"
        a = sym_events
        b = [_ev_plain(e) for e in c.events]
        if not _ev_same(a, b):
            for i, (x, y) in enumerate(zip(a, b)):
                if not _ev_same(x, y):
                    return "trace validation: event %d differs: symbolic %r vs concrete %r" % (i, x, y)
            return "trace validation: event log lengths differ %d vs %d: %r / %r" % (len(a), len(b), a[-3:], b[-3:])
        return None


def _ev_same(a, b):
    if isinstance(a, (tuple, list)) and isinstance(b, (tuple, list)):
        return len(a) == len(b) and all(_ev_same(x, y) for x, y in zip(a, b))
    if isinstance(a, float) or isinstance(b, float):
        try:
            return abs(float(a) - float(b)) <= 1e-9 * max(1.0, abs(float(a)), abs(float(b)))
        except (TypeError, ValueError):
            return False
    return a == b


def _ev_eval(e, mv, ctx):
    out = []
    for x in e:
        out.append(_eval_one(x, ctx))
    return tuple(out)


def _eval_one(x, ctx):
    if isinstance(x, (SymInt, SymReal, SymBool)):
        m = ctx.s.model()
        val = m.eval(x.t, model_completion=True)
        if z3.is_int_value(val):
            return val.as_long()
        if z3.is_rational_value(val):
            return float(Fraction(val.numerator_as_long(), val.denominator_as_long()))
        if z3.is_true(val):
            return True
        if z3.is_false(val):
            return False
        return str(val)
    if isinstance(x, (list, tuple)):
        return tuple(_eval_one(y, ctx) for y in x)
    if isinstance(x, float):
        return x
    return x


def _ev_plain(e):
    def p(x):
        if isinstance(x, (list, tuple)):
            return tuple(p(y) for y in x)
        if isinstance(x, Fraction):
            return float(x)
        return x

    return tuple(p(x) for x in e)
