"""End-to-end world for C01: the real Producer on the real KafkaClient / _KafkaBrokerClient / KafkaProtocol / KafkaCodec over
SimNet, against SimCluster brokers (reference parser and encoders).  The behaviour of each broker is a symbolic choice
(acknowledges | answers with an error code for good | accepts the connection and stays silent | refuses connections |
loses its leadership to the other broker after the first error); replies, timers and reconnects are then driven to quiescence.
The monitors compare what each send's Deferred reported with what the brokers actually received, applied and acknowledged."""
from twisted.internet.task import Clock
from twisted.python.failure import Failure

import afkak.client as client_mod
from afkak.client import KafkaClient
from afkak.common import ProduceResponse
from afkak.partitioner import Partitioner
from afkak.producer import Producer

from harness.C07_routing import _pump, _Shuffle
from vlib.sim.cluster import SimCluster
from vlib.sim.contract import fire_next_timer, next_timer

BEHAVIOURS = ["answer", "error", "silent", "refuse", "leader-moves"]


class KeyPartitioner(Partitioner):
    """key b'0' / b'1' -> that index of the partition list (the partitioners are C18's subject)"""

    def partition(self, key, partitions):
        return partitions[int(key) % len(partitions)]


def make_scenario(job):
    acks = job["acks"]

    def run(ctx):
        clock = Clock()
        cl = SimCluster(clock)
        client_mod.random = _Shuffle(ctx, max_perms=1)
        for n in (1, 2):
            cl.add_broker(n)
        cl.leaders[("t", 0)] = 1
        cl.leaders[("t", 1)] = 2
        client = KafkaClient("boot:9092", reactor=clock, endpoint_factory=cl.net.endpoint_factory, timeout=4000,
                             retry_policy=lambda n_: 1.0, enable_protocol_version_discovery=False)
        kw = dict(batch_send=True, batch_every_n=2, batch_every_b=0, batch_every_t=0) if job.get("batch") else {}
        producer = Producer(client, partitioner_class=KeyPartitioner, req_acks=acks, max_req_attempts=2, retry_interval=0.5,
                            codec=job.get("codec", 0), **kw)
        bh = {n: BEHAVIOURS[ctx.choose("behaviour_%d" % n, len(BEHAVIOURS))] for n in (1, 2)}
        ctx.sig("e2e acks=%s batch=%s codec=%s" % (acks, bool(job.get("batch")), job.get("codec", 0)))
        ctx.log("behaviours", sorted(bh.items()))
        for n, b in bh.items():
            if b in ("error", "leader-moves"):
                cl.error_for[(0, "t", n - 1)] = 6  # NotLeaderForPartition, a retriable code

        sends = []  # dict(key, msgs, part, res)

        def send(key, msgs):
            s = {"key": key, "msgs": msgs, "part": int(key), "res": []}
            sends.append(s)
            d = producer.send_messages("t", key=key, msgs=msgs)
            d.addBoth(s["res"].append)

        send(b"0", [b"a0", b"a1"])
        send(b"1", [b"b0"])
        if job.get("third"):
            send(b"0", [b"c0"])
        hold = []
        moved = set()
        stop_at = ctx.choose("stop_at", 6) if job.get("stop") else None  # driving step at which the application stops the producer
        st_stop = {"done": False, "frames": None}

        def total_frames():
            return sum(len(t.frames()) for t in cl.net.transports)

        for step in range(80):
            if job.get("stop") and not st_stop["done"] and step == stop_at and not all(s["res"] for s in sends):
                ctx.log("stop()")
                st_stop["done"] = True
                outstanding = [s for s in sends if not s["res"]]
                try:
                    producer.stop()
                except Exception as e:  # noqa
                    ctx.check(False, "no-exception-escapes-producer", repr(e))
                    return
                for s in outstanding:
                    ok_ = len(s["res"]) == 1 and isinstance(s["res"][0], Failure)
                    ctx.check(ok_, "stop-fails-every-outstanding-send", "after stop(): %r" % (s["res"],))
                st_stop["frames"] = sum(1 for t in cl.net.transports for f in t.frames() if f[:2] == b"\x00\x00")
            if st_stop["done"]:
                # nothing may be transmitted on behalf of a stopped producer (metadata traffic of the client is not the producer's)
                now_ = sum(1 for t in cl.net.transports for f in t.frames() if f[:2] == b"\x00\x00")
                ctx.check(now_ == st_stop["frames"], "nothing-transmitted-after-stop", "%d produce request(s) written after stop()" % (now_ - st_stop["frames"]))
                if next_timer(clock) is None and not cl.net.pending_attempts() and not [x for x in hold if not getattr(x, "silent", False)]:
                    break
            elif all(s["res"] for s in sends):
                break

            def behaviour(n):
                return {"answer": "answer", "error": "answer", "leader-moves": "answer", "silent": "silent", "refuse": "refuse"}[bh[n]]

            _pump(ctx, cl, clock, behaviour, [], hold=hold)
            progressed = False
            for x in list(hold):
                if getattr(x, "silent", False) or x.answered or x.transport.closed:
                    continue
                cl.answer(x)
                hold.remove(x)
                progressed = True
                if bh.get(x.node) == "leader-moves" and x.node not in moved and x.api == 0:
                    # after its first error reply the broker's partition is led by the other broker
                    moved.add(x.node)
                    other = 2 if x.node == 1 else 1
                    cl.leaders[("t", x.node - 1)] = other
                    cl.error_for.pop((0, "t", x.node - 1), None)
            if progressed:
                continue
            if next_timer(clock) is None:
                break
            fire_next_timer(clock)
        # ------------------------------------------------------------------ verdicts
        for i, s in enumerate(sends):
            ctx.check(len(s["res"]) == 1, "fires-exactly-once", "send %d fired %d times (behaviours %r)" % (i, len(s["res"]), sorted(bh.items())))
            if len(s["res"]) != 1:
                continue
            r = s["res"][0]
            tp = ("t", s["part"])
            pairs = [(s["key"], m) for m in s["msgs"]]
            # what the brokers saw: produce requests that reached a broker and carried exactly these messages for tp
            carried = []
            for inb in cl.requests:
                if inb.api != 0:
                    continue
                for (t, ps) in inb.q["body"]["topics"]:
                    for (p, ms) in ps:
                        got = _flatten(ms)
                        if (t.decode(), p) == tp and _contains_run(got, pairs):
                            carried.append(inb)
            if isinstance(r, Failure):
                ctx.log("send-failed", i, type(r.value).__name__)
                ldr = cl.leaders[tp]
                if bh[ldr] == "answer" and ldr not in moved and all(bh[n] in ("answer", "error") for n in bh) and not st_stop["done"]:
                    ctx.check(False, "send-succeeds-when-the-leader-acknowledges", "send %d failed with %r although its leader acknowledges" % (i, r.value))
                continue
            ctx.log("send-ok", i)
            if acks == 0:
                ctx.check(r is None, "acks0-succeeds-with-no-value", repr(r))
                ctx.check(bool(carried), "acks0-success-only-after-handover",
                          "send %d reported success but no connection ever received a request with its messages (behaviours %r)" % (i, sorted(bh.items())))
                continue
            ok = isinstance(r, ProduceResponse) and r.error == 0 and (r.topic, r.partition) == tp
            ctx.check(ok, "success-value-is-error-free-response", "send %d succeeded with %r" % (i, r))
            acked = [inb for inb in carried if inb.answered and not getattr(inb, "silent", False) and not getattr(inb, "dropped", False)]
            ctx.check(bool(acked), "success-only-if-leader-acknowledged-those-messages", "send %d succeeded but no broker acknowledged a request carrying its messages" % i)
            lg = _flatten(cl.applied.get(tp, []))
            ctx.check(_contains_run(lg, pairs), "success-only-if-leader-acknowledged-those-messages", "send %d succeeded; log of %r is %r" % (i, tp, lg))
        ctx.log("end", [(len(s["res"])) for s in sends])

    return run


def _flatten(ms):
    """(offset, message dict) list of a parsed message set -> [(key, value)], looking through gzip wrappers"""
    from afkak.codec import gzip_decode

    from vlib.ref import kafka_ref as ref

    out = []
    for (_o, m) in ms:
        if m["attributes"] & 3 == 1:
            out.extend(_flatten(ref.parse_message_set(gzip_decode(m["value"]))))
        else:
            out.append((m["key"], m["value"]))
    return out


def _contains_run(seq, run):
    n = len(run)
    return any(list(seq[i : i + n]) == list(run) for i in range(len(seq) - n + 1))
