"""ContractClient: stand-in for the slice of KafkaClient that Producer / Consumer /
Coordinator touch.  Every request returns a pending Deferred which the scenario script
later resolves with any outcome the real client can produce (the outcome alphabet is
cross-checked against the real client by the C07 harness)."""
from twisted.internet.defer import Deferred
from twisted.internet.task import Clock

from afkak.common import UnknownTopicOrPartitionError


def _exact_get_time(self):
    """DelayedCall.getTime without the float coercion: Twisted initialises delayed_time to 0.0, so time + delayed_time turns an
    exact (Fraction) virtual time of a concrete replay into a float.  Same value, no rounding."""
    return self.time + self.delayed_time if self.delayed_time else self.time


from twisted.internet.base import DelayedCall as _DelayedCall  # noqa: E402

_DelayedCall.getTime = _exact_get_time


class Pending:
    __slots__ = ("kind", "args", "d", "done", "cancelled", "t")

    def __init__(self, kind, args, d, t):
        self.kind = kind
        self.args = args
        self.d = d
        self.done = False
        self.cancelled = False
        self.t = t


class ContractClient:
    def __init__(self, ctx, reactor=None, api_versions=0):
        self.ctx = ctx
        self.reactor = reactor or Clock()
        self._api_versions = api_versions
        self.pending = []  # unresolved requests in issue order
        self.history = []  # every request ever issued: Pending
        self.topic_partitions = {}
        self.topic_errors = {}
        self.reset_calls = []
        self.timeout = 10.0
        self.on_request = None  # hook(kind, Pending)
        self.cancel_as_failed_payloads = False

    # ------------------------------------------------------------------ bookkeeping
    def _issue(self, kind, **args):
        p = Pending(kind, args, None, self.reactor.seconds())

        def _cancel(d, p=p):
            p.cancelled = True
            p.done = True
            if p in self.pending:
                self.pending.remove(p)
            if self.cancel_as_failed_payloads and kind in ("fetch", "commit", "offset", "offset_fetch", "produce") and args.get("payloads"):
                # what the real KafkaClient does for a broker-aware request that is cancelled while in flight: the per-broker
                # requests are cancelled, and the call fails with FailedPayloadsError listing the payloads (not CancelledError)
                from twisted.internet.defer import CancelledError as _TCE
                from twisted.python.failure import Failure as _F

                from afkak.common import FailedPayloadsError as _FPE

                d.errback(_FPE([], [(pl, _F(_TCE())) for pl in args["payloads"]]))

        p.d = Deferred(_cancel)
        self.pending.append(p)
        self.history.append(p)
        if self.on_request is not None:
            self.on_request(kind, p)
        return p.d

    def outstanding(self, kind=None):
        return [p for p in self.pending if kind is None or p.kind == kind]

    def resolve(self, p, value):
        assert not p.done
        p.done = True
        self.pending.remove(p)
        p.d.callback(value)

    def fail(self, p, exc):
        assert not p.done
        p.done = True
        self.pending.remove(p)
        p.d.errback(exc)

    # ------------------------------------------------------------------ consumer side
    def send_fetch_request(self, payloads=None, fail_on_error=True, callback=None, max_wait_time=None, min_bytes=None):
        return self._issue("fetch", payloads=list(payloads), max_wait_time=max_wait_time, min_bytes=min_bytes)

    def send_offset_request(self, payloads=None, fail_on_error=True, callback=None):
        return self._issue("offset", payloads=list(payloads))

    def send_offset_fetch_request(self, group, payloads=None, fail_on_error=True, callback=None):
        return self._issue("offset_fetch", group=group, payloads=list(payloads))

    def send_offset_commit_request(
        self, group, payloads=None, fail_on_error=True, callback=None, group_generation_id=-1, consumer_id=""
    ):
        return self._issue(
            "commit", group=group, payloads=list(payloads), generation=group_generation_id, member=consumer_id
        )

    # ------------------------------------------------------------------ producer side
    def metadata_error_for_topic(self, topic):
        return self.topic_errors.get(topic, UnknownTopicOrPartitionError.errno)

    def load_metadata_for_topics(self, *topics):
        return self._issue("metadata", topics=topics)

    def reset_topic_metadata(self, *topics):
        self.reset_calls.append(topics)
        for t in topics:
            self.topic_partitions.pop(t, None)
            self.topic_errors.pop(t, None)

    def send_produce_request(self, payloads=None, acks=1, timeout=1000, fail_on_error=True, callback=None):
        return self._issue("produce", payloads=list(payloads), acks=acks, timeout=timeout, fail_on_error=fail_on_error)


def next_timer(clock):
    calls = [c for c in clock.getDelayedCalls() if c.active()]
    if not calls:
        return None
    return min(calls, key=lambda c: c.getTime())


def fire_next_timer(clock):
    """Advance the virtual clock exactly to the next due delayed call."""
    c = next_timer(clock)
    if c is None:
        return None
    dt = c.getTime() - clock.seconds()
    if dt < 0:
        dt = 0
    clock.advance(dt)
    return dt
