"""Shared world for the group-coordination properties (C16, C17): the real afkak ConsumerGroup /
Coordinator with real Consumer objects underneath and the real assignment code, against a contract
client whose group requests are answered by the scenario (SimCoordinator)."""
from twisted.internet.defer import Deferred
from twisted.internet.task import Clock
from twisted.python.failure import Failure

import afkak._group as group_mod
from afkak._group import ConsumerGroup, _ConsumerProtocol
from afkak.common import (
    BrokerMetadata,
    CoordinatorNotAvailable,
    FetchResponse,
    IllegalGeneration,
    InconsistentGroupProtocol,
    KafkaUnavailableError,
    NotCoordinator,
    OffsetCommitResponse,
    OffsetFetchResponse,
    RebalanceInProgress,
    RequestTimedOutError,
    UnknownMemberId,
    _HeartbeatRequest,
    _HeartbeatResponse,
    _JoinGroupRequest,
    _JoinGroupResponse,
    _JoinGroupResponseMember,
    _LeaveGroupRequest,
    _LeaveGroupResponse,
    _SyncGroupRequest,
    _SyncGroupResponse,
)
from afkak.consumer import Consumer
from afkak.kafkacodec import KafkaCodec

from vlib.sim import wire
from vlib.sim.contract import ContractClient, fire_next_timer, next_timer

GROUP_ERRORS = {
    "rebalance": RebalanceInProgress,
    "illegal_generation": IllegalGeneration,
    "unknown_member": UnknownMemberId,
    "not_coordinator": NotCoordinator,
    "coordinator_not_available": CoordinatorNotAvailable,
    "timeout": RequestTimedOutError,
    "inconsistent_protocol": InconsistentGroupProtocol,
}
RETRY_S, FATAL_S, INITIAL_S = 0.1, 10.0, 1.0
EXPECTED_DELAY = {
    "rebalance": RETRY_S,
    "illegal_generation": RETRY_S,
    "unknown_member": RETRY_S,
    "not_coordinator": RETRY_S,
    "coordinator_not_available": RETRY_S,
    "timeout": FATAL_S,
    "inconsistent_protocol": FATAL_S,
}
EVICTING = ("illegal_generation", "unknown_member", "timeout")


class GroupClient(ContractClient):
    """ContractClient + the slice of KafkaClient the Coordinator touches"""

    def _get_coordinator_for_group(self, group):
        return self._issue("coordinator", group=group)

    def _send_request_to_coordinator(self, group, payload, encoder_fn, decode_fn, **kwargs):
        kind = {_JoinGroupRequest: "join", _SyncGroupRequest: "sync", _HeartbeatRequest: "heartbeat", _LeaveGroupRequest: "leave"}[type(payload)]
        # (the bytes of these requests are C04's subject; generation ids are symbolic here, so nothing is encoded)
        return self._issue(kind, group=group, payload=payload, kwargs=kwargs)

    def _load_topic_partitions(self, *topics):
        return self._issue("partitions", topics=topics)

    def reset_consumer_group_metadata(self, *groups):
        self.reset_calls.append(("group",) + groups)


def make_scenario(job, groups):
    """groups: subset of {'fence', 'progress', 'wire'}"""
    K = job["K"]

    def run(ctx):
        clock = Clock()
        client = GroupClient(ctx, clock)
        consumers = []  # every partition consumer ever created

        class RecConsumer(Consumer):
            def __init__(self, *a, **kw):
                Consumer.__init__(self, *a, **kw)
                self.created_gen = kw.get("commit_generation_id")
                self.created_member = kw.get("commit_consumer_id")
                consumers.append(self)

        group_mod.Consumer = RecConsumer
        st = {
            "gen": None,  # generation of the last successful JoinGroup answer (the coordinator's current generation for us)
            "gen_var": ctx.int("gen0", 1, 2**30),
            "member": "",
            "assignment": {},
            "faults": job["faults"],
            "stop_called": False,
            "stop_done": False,
            "stopped_result": [],
            "joins": 0,
            "last_error": None,
            "last_error_time": None,
            "stable": False,
        }
        processed = []
        topics = ["t", "u"] if job.get("two_topics") else ["t"]
        g = ConsumerGroup(client, "grp", list(topics), lambda c, msgs: processed.extend(msgs), session_timeout_ms=30000,
                          heartbeat_interval_ms=5000, initial_backoff_ms=int(INITIAL_S * 1000), retry_backoff_ms=int(job.get("retry_s", RETRY_S) * 1000),
                          fatal_backoff_ms=int(FATAL_S * 1000),
                          consumer_kwargs=dict(auto_commit_every_n=(1 if job.get("autocommit") else 0), auto_commit_every_ms=0,
                                               **({"request_retry_max_attempts": 1} if job.get("sync_offset_reject") else {})))
        ctx.sig("group prefix=%s leader=%s last_fault=none" % (job.get("prefix", "fresh"), job.get("leader")))
        start_res = []

        def running():
            return [c for c in consumers if c._start_d is not None]

        # ------------------------------------------------------------------ request monitor
        def on_request(kind, p):
            ctx.log("req", kind)
            if "wire" in groups:
                bad = wire.check_request(ctx, kind, p.args)
                ctx.check(bad is None, "state-machine-requests-conform-on-the-wire", bad or "")
            if kind == "leave":
                st["leave_sent"] = True
            if st["stop_called"]:
                # reading: once stop() has been called no new membership exchange starts (JoinGroup, SyncGroup, coordinator or
                # partition lookups); heartbeats keep the session alive while the consumers commit and shut down, but none is
                # sent once the LeaveGroup has gone out; commits and the LeaveGroup itself are allowed until stop() completes
                banned = ("join", "sync", "coordinator", "partitions") + (("heartbeat",) if st.get("leave_sent") and kind != "leave" else ())
                ctx.check(kind not in banned, "no-group-request-after-stop", "%s issued after stop() was called%s" % (kind, " and the LeaveGroup was sent" if kind == "heartbeat" else ""))
            if st["stop_done"]:
                ctx.check(False, "nothing-after-stop-completes", "%s issued after the Deferred returned by stop() fired" % kind)
            if kind == "join":
                st["joins"] += 1
                st["stable"] = False
                if "fence" in groups and not st.get("rejected_since_sync") and not st["stop_called"]:
                    # a graceful re-join (rebalance announced): the old generation's consumers were shut down committing their
                    # progress -- none of their commits may have been abandoned while the coordinator had not answered it
                    dropped = [x for x in client.history[st.get("hist_at_sync", 0):] if x.kind == "commit" and x.cancelled]
                    ctx.check(not dropped, "shutdown-commits-not-abandoned", "JoinGroup sent after %d commit(s) of the previous generation were cancelled unanswered" % len(dropped))
                if "fence" in groups:
                    ctx.check(not running(), "consumers-shut-down-before-rejoin", "JoinGroup sent while %d partition consumer(s) of the previous generation are running" % len(running()))
                    ctx.check(len(client.outstanding("join")) + len(client.outstanding("sync")) <= 1, "one-join-sync-exchange-in-flight", "a second join/sync exchange was started")
            if kind == "sync" and "fence" in groups:
                ctx.check(len(client.outstanding("join")) + len(client.outstanding("sync")) <= 1, "one-join-sync-exchange-in-flight", "sync while another exchange is in flight")
                pl = p.args["payload"]
                ctx.check(pl.generation_id == st["gen"] and pl.member_id == st["member"], "group-requests-carry-current-generation", "sync carries generation %s / member %r, current %s / %r" % (pl.generation_id, pl.member_id, st["gen"], st["member"]))
            if kind == "heartbeat" and "fence" in groups:
                pl = p.args["payload"]
                ctx.check(st["stable"] and not client.outstanding("join") and not client.outstanding("sync"), "heartbeat-only-while-stable", "heartbeat sent while not a stable member")
                ctx.check(pl.generation_id == st["gen"] and pl.member_id == st["member"], "group-requests-carry-current-generation", "heartbeat carries generation %s, current %s" % (pl.generation_id, st["gen"]))
            if kind == "commit" and "fence" in groups:
                owner = [c for c in consumers if c.topic == p.args["payloads"][0].topic and c.partition == p.args["payloads"][0].partition and c._commit_req is None]
                ctx.check(
                    any(p.args["generation"] == c.created_gen and p.args["member"] == c.created_member for c in consumers),
                    "commit-carries-generation-and-member",
                    "commit carries generation %s member %r" % (p.args["generation"], p.args["member"]),
                )
            if kind == "offset_fetch" and "fence" in groups:
                ctx.check(p.args["group"] == "grp", "consumer-starts-from-committed-position")
            if kind == "offset_fetch" and job.get("sync_offset_reject") and not st.get("sync_rejected"):
                # the coordinator has already moved on: the first committed-offset lookup of the new consumers is refused before
                # the request call returns (and the consumers are configured with a single attempt), so the consumer's failure
                # reaches the group while it is still inside on_join_complete
                st["sync_rejected"] = True
                st["stable"] = False  # (the assignment is left as it is: the remaining consumers of this generation are still
                # being created by on_join_complete and are shut down by the re-join that follows)
                fail_with(p, "unknown_member")
                return
            if kind in ("offset_fetch", "offset"):
                auto.append(p)
            if kind == "fetch":
                req = p.args["payloads"][0]
                key = ("fed", req.topic, req.partition, st["joins"])
                if key not in st:
                    st[key] = True
                    auto.append(p)
                else:
                    idle_fetches.append(p)  # the partition has no more messages: the fetch stays outstanding

        auto = []
        idle_fetches = []

        def run_auto():
            while auto:
                p = auto.pop(0)
                if not p.done:
                    answer(p)

        def choosable():
            return [p for p in client.pending if p not in idle_fetches and p not in auto]

        client.on_request = on_request

        def after_event(where):
            if "fence" in groups:
                for c in running():
                    if c._shuttingdown:
                        continue  # being shut down gracefully (commit in flight): must be gone before any JoinGroup, checked there
                    tp_ok = c.topic in st["assignment"] and c.partition in st["assignment"][c.topic]
                    ctx.check(
                        tp_ok and c.created_gen == st["gen"] and c.created_member == st["member"],
                        "running-consumers-belong-to-current-generation",
                        "%s: consumer %s/%s created in generation %s runs while the current generation is %s with assignment %r" % (where, c.topic, c.partition, c.created_gen, st["gen"], st["assignment"]),
                    )
                if st["stop_done"]:
                    ctx.check(not running(), "no-consumer-after-stop", "%s: consumers running after stop() completed" % where)
            if "progress" in groups and not st["stop_called"] and not start_res:
                joining = bool(client.outstanding("coordinator") or client.outstanding("metadata") or client.outstanding("join") or client.outstanding("sync") or client.outstanding("partitions")) or bool(g._rejoin_d)
                stable = (not g._rejoin_needed) and g._heartbeat_looper.running
                waiting = any(dc.active() and getattr(dc.func, "__name__", "") == "join_and_sync" for dc in clock.getDelayedCalls())
                shutting = any(c._shuttingdown for c in consumers if c._start_d is not None)
                ctx.check(
                    joining or stable or waiting or shutting or g._stopping,
                    "never-idle",
                    "%s: no join in flight, not stable with heartbeats, no rejoin scheduled (state %s, rejoin_needed=%s)" % (where, g._state, g._rejoin_needed),
                )

        g.start().addBoth(start_res.append)
        after_event("start")

        # ------------------------------------------------------------------ answering requests
        def fault_or_ok(kind, options):
            """choose the outcome of a group request: 'ok' or one of the error names in options (within the fault budget)"""
            if st["faults"] <= 0:
                return "ok"
            k = ctx.choose("outcome_" + kind, 1 + len(options))
            if k == 0:
                return "ok"
            st["faults"] -= 1
            return options[k - 1]

        def rejoin_timers():
            return [dc for dc in clock.getDelayedCalls() if dc.active() and getattr(dc.func, "__name__", "") == "join_and_sync"]

        def fail_with(p, name):
            if name in EVICTING or name in ("unknown_member", "illegal_generation", "non_kafka", "inconsistent_protocol"):
                st["rejected_since_sync"] = True  # the coordinator rejected this member: its consumers are stopped, not shut down
            st["timer_before_fault"] = bool(rejoin_timers())
            st["last_error"] = name
            st["last_error_time"] = clock.seconds()
            ctx.log("fault", p.kind, name)
            ctx.sig("group prefix=%s leader=%s last_fault=%s/%s" % (job.get("prefix", "fresh"), job.get("leader"), p.kind, name))
            if name == "non_kafka":
                client.fail(p, RuntimeError("not a kafka error"))
            elif name == "unavailable":
                client.fail(p, KafkaUnavailableError("all brokers down"))
            else:
                client.fail(p, GROUP_ERRORS[name]())

        def check_backoff(name, p_kind):
            """after a retriable error a rejoin must be scheduled with the documented delay"""
            if "progress" not in groups or st["stop_called"] or start_res:
                return
            dcs = [dc for dc in clock.getDelayedCalls() if dc.active() and getattr(dc.func, "__name__", "") == "join_and_sync"]
            ctx.check(bool(dcs), "retriable-error-schedules-rejoin", "%s on %s: no rejoin scheduled" % (name, p_kind))
            if dcs and name in EXPECTED_DELAY:
                d = min(dc.getTime() for dc in dcs) - clock.seconds()
                exp = EXPECTED_DELAY[name] if EXPECTED_DELAY[name] != RETRY_S else job.get("retry_s", RETRY_S)
                if p_kind == "coordinator":
                    exp = {"coordinator_not_available": INITIAL_S, "not_coordinator": INITIAL_S, "timeout": FATAL_S}.get(name, FATAL_S)
                if st.get("timer_before_fault"):
                    exp = max(exp, FATAL_S)  # a rejoin was already scheduled by an earlier error: it is kept (at most the longest documented back-off)
                ctx.check(d <= exp + 1e-9, "rejoin-after-documented-backoff", "%s on %s: rejoin in %r s, documented %r s" % (name, p_kind, d, exp))

        def answer(p):
            kind = p.kind
            if kind == "coordinator":
                o = fault_or_ok(kind, ["coordinator_not_available", "timeout", "non_kafka"] if "progress" in groups else ["coordinator_not_available", "timeout"])
                if o == "ok":
                    client.resolve(p, BrokerMetadata(5, "coord", 9092))
                else:
                    fail_with(p, o)
                    if o == "non_kafka":
                        return
                    check_backoff(o, kind)
            elif kind == "metadata":
                o = fault_or_ok(kind, ["unavailable"] if "progress" in groups else [])
                if o == "ok":
                    for t_ in topics:
                        client.topic_partitions[t_] = [0, 1]
                        client.topic_errors[t_] = 0
                    client.resolve(p, True)
                else:
                    fail_with(p, o)
                    check_backoff(o, kind)
            elif kind == "join":
                o = fault_or_ok(kind, ["rebalance", "unknown_member", "not_coordinator", "timeout", "inconsistent_protocol", "non_kafka"] if "progress" in groups else ["rebalance", "unknown_member", "illegal_generation", "timeout"])
                if o == "ok":
                    st["gen_var"] = st["gen_var"] + ctx.int("gen_step", 1, 1000)
                    st["gen"] = st["gen_var"]
                    st["member"] = "m-1"
                    st["assignment"] = {}
                    leader = job.get("leader", True)
                    if st.get("in_prefix"):
                        leader = False
                    elif leader and ctx.choose("am_leader", 2) == 0:
                        leader = False
                    md = p.args["payload"].group_protocols[0].protocol_metadata
                    members = [_JoinGroupResponseMember("m-1", md)]
                    if not st.get("in_prefix") and ctx.choose("other_member", 2) == 1:
                        members.append(_JoinGroupResponseMember("m-0", md))
                    st["members"] = members
                    st["leader"] = leader
                    client.resolve(p, _JoinGroupResponse(0, st["gen"], "consumer", "m-1" if leader else "m-0", "m-1", members if leader else []))
                else:
                    fail_with(p, o)
                    if o != "non_kafka":
                        check_backoff(o, kind)
            elif kind == "partitions":
                o = fault_or_ok(kind, ["unavailable"] if "progress" in groups else [])
                if o == "ok":
                    client.resolve(p, {t_: [0, 1] for t_ in topics})
                else:
                    fail_with(p, o)
                    check_backoff(o, kind)
            elif kind == "sync":
                o = fault_or_ok(kind, ["rebalance", "illegal_generation", "unknown_member", "timeout"])
                if o == "ok":
                    pl = p.args["payload"]
                    if st["leader"]:
                        mine = [a.member_metadata for a in pl.group_assignment if a.member_id == "m-1"]
                        ctx.check(len(mine) == 1 and len(pl.group_assignment) == len(st["members"]), "leader-sends-one-assignment-per-member", repr(pl.group_assignment))
                        blob = mine[0] if mine else KafkaCodec.encode_sync_group_member_assignment(0, {}, b"")
                    else:
                        if job.get("two_topics"):
                            # partitions of both topics (so the member runs consumers of two topics), or of one only
                            asg = {"t": [0], "u": [0]} if st.get("in_prefix") else [{"t": [0], "u": [0]}, {"t": [0, 1], "u": [1]}, {"u": [0]}][ctx.choose("assigned", 3)]
                        else:
                            parts = [0] if st.get("in_prefix") else [[0], [1], [0, 1], []][ctx.choose("assigned", 4)]
                            asg = {"t": parts} if parts else {}
                        blob = KafkaCodec.encode_sync_group_member_assignment(0, asg, b"")
                    dec = _ConsumerProtocol().decode_assignment(blob)
                    st["assignment"] = {t: list(ps) for t, ps in dec.items()}
                    st["stable"] = True
                    st["rejected_since_sync"] = False
                    st["hist_at_sync"] = len(client.history)
                    client.resolve(p, _SyncGroupResponse(0, blob))
                else:
                    fail_with(p, o)
                    check_backoff(o, kind)
            elif kind == "heartbeat":
                stale = not (p.args["payload"].generation_id == st["gen"])
                # a heartbeat of an earlier generation that is answered after the member re-joined can only be told that
                # the generation moved on (a coordinator that accepted the join still knows the member)
                o = fault_or_ok(kind, ["rebalance", "illegal_generation"] if stale else ["rebalance", "illegal_generation", "unknown_member", "timeout", "not_coordinator"])
                if o == "ok":
                    client.resolve(p, _HeartbeatResponse(0))
                else:
                    st["stable"] = False
                    if o in EVICTING:
                        st["assignment"] = {}
                    fail_with(p, o)
                    check_backoff(o, kind)
                    if "fence" in groups and o in EVICTING and not st["stop_called"]:
                        ctx.check(not running(), "evicted-member-stops-consumers", "after %s on the heartbeat %d consumer(s) still run" % (o, len(running())))
            elif kind == "leave":
                client.resolve(p, _LeaveGroupResponse(0))
            elif kind == "offset_fetch":
                client.resolve(p, [OffsetFetchResponse(p.args["payloads"][0].topic, p.args["payloads"][0].partition, ctx.int("committed", -1, 2**40), b"", 0)])
            elif kind == "offset":
                from afkak.common import OffsetResponse

                client.resolve(p, [OffsetResponse(p.args["payloads"][0].topic, p.args["payloads"][0].partition, 0, (0,))])
            elif kind == "fetch":
                # one message per consumer and generation, so that shutting it down has something to commit
                req = p.args["payloads"][0]
                from afkak.common import Message, OffsetAndMessage

                client.resolve(p, [FetchResponse(req.topic, req.partition, 0, 0, iter([OffsetAndMessage(req.offset, Message(0, 0, None, b"v"))]))])
            elif kind == "commit":
                o = fault_or_ok(kind, ["illegal_generation", "rebalance"])
                if o == "ok":
                    client.resolve(p, [OffsetCommitResponse(p.args["payloads"][0].topic, p.args["payloads"][0].partition, 0)])
                else:
                    fail_with(p, o)
            else:
                raise AssertionError(kind)

        # ------------------------------------------------------------------ concrete prefix: reach a deep state first
        prefix = job.get("prefix", "fresh")
        saved_faults, st["faults"] = st["faults"], 0
        st["in_prefix"] = True

        def drive(until, limit=40):
            """answer everything benignly (never heartbeats/commits that the prefix wants to keep in flight) until `until()`"""
            for _ in range(limit):
                if until():
                    return True
                run_auto()
                ps = [p for p in choosable() if p.kind not in keep]
                if ps:
                    answer(ps[0])
                    run_auto()
                elif next_timer(clock) is not None:
                    fire_next_timer(clock)
                else:
                    return until()
            return until()

        keep = set()
        try:
            if prefix != "fresh":
                ok = drive(lambda: st["stable"] and not [p for p in client.pending if p.kind in ("offset_fetch", "join", "sync")] and not auto)
                ctx.check(ok, "prefix-reached", "stable member")
            if prefix in ("stable-hb", "stable-commit-hb", "rejoin-with-hb-pending"):
                keep = {"heartbeat", "commit"} if prefix != "stable-hb" else {"heartbeat"}
                want = (lambda: bool(client.outstanding("heartbeat")) and (prefix == "stable-hb" or bool(client.outstanding("commit"))))
                ok = drive(want, 60)
                ctx.check(ok, "prefix-reached", "heartbeat%s in flight" % ("" if prefix == "stable-hb" else " and auto-commit"))
            if prefix == "rejoin-with-hb-pending":
                # the coordinator rejects the commit (a new generation began): the member rejoins while its heartbeat is still unanswered
                [pc] = client.outstanding("commit")[:1]
                fail_with(pc, "illegal_generation")
                keep = {"heartbeat", "join"}
                ok = drive(lambda: bool(client.outstanding("join")) and bool(client.outstanding("heartbeat")), 60)
                ctx.check(ok, "prefix-reached", "join in flight with the old heartbeat still unanswered")
        except Exception as e:  # noqa
            import traceback

            ctx.check(False, "no-exception-escapes-group", "prefix %s: %r %s" % (prefix, e, traceback.format_exc()[-700:]))
            return
        st["faults"] = saved_faults
        st["in_prefix"] = False
        ctx.log("prefix-done", prefix, [p.kind for p in client.pending])
        after_event("prefix")
        # ------------------------------------------------------------------ the script
        for ev in range(K):
            if start_res and not st["stop_called"]:
                break
            run_auto()
            acts = []
            if choosable():
                acts.append(0)
            if next_timer(clock) is not None and not st["stop_done"]:
                acts.append(1)
            if job.get("stop") and not st["stop_called"] and (ev >= 2 or job.get("prefix", "fresh") != "fresh"):
                acts.append(2)
            if not acts:
                break
            a = ctx.choose("ev", 3, enabled=acts)
            try:
                if a == 0:
                    ps = choosable()
                    p = ps[ctx.choose("which", len(ps))] if len(ps) > 1 else ps[0]
                    answer(p)
                    run_auto()
                elif a == 1:
                    ctx.log("timer", fire_next_timer(clock))
                    run_auto()
                else:
                    ctx.log("stop")
                    st["stop_called"] = True
                    d = g.stop()
                    d.addBoth(lambda r: (st["stopped_result"].append(r), st.__setitem__("stop_done", True)) and None)
            except Exception as e:  # noqa
                import traceback

                ctx.check(False, "no-exception-escapes-group", "%r %s" % (e, traceback.format_exc()[-900:]))
                return
            after_event("after event %d" % ev)
        # ------------------------------------------------------------------ faults cease: bounded liveness
        st["faults"] = 0
        st["in_prefix"] = True  # the settling phase is deterministic: a prompt, benign coordinator
        if "progress" in groups and not st["stop_called"]:
            nonk = st["last_error"] == "non_kafka"
            t_end = clock.seconds() + FATAL_S + 35.0
            for _ in range(200):
                if start_res:
                    break
                run_auto()
                if choosable():
                    try:
                        answer(choosable()[0])
                        run_auto()
                    except Exception as e:  # noqa
                        ctx.check(False, "no-exception-escapes-group", repr(e))
                        return
                    continue
                if st["stable"] and not g._rejoin_needed and g._heartbeat_looper.running and len(running()) == sum(len(v) for v in st["assignment"].values()):
                    break
                nt = next_timer(clock)
                if nt is None or nt.getTime() > t_end:
                    break
                fire_next_timer(clock)
            if nonk:
                ctx.check(len(start_res) == 1 and isinstance(start_res[0], Failure), "non-kafka-error-surfaces-on-start-deferred", "start() result %r" % (start_res,))
            elif not start_res:
                ok = st["stable"] and not g._rejoin_needed and g._heartbeat_looper.running
                ctx.check(ok, "rejoins-within-bounded-time-once-faults-cease", "after faults ceased the member did not become stable within %.0f s (state %s, rejoin_needed=%s, pending=%r, timers=%d)" % (FATAL_S + 35.0, g._state, g._rejoin_needed, [p.kind for p in client.pending], len(clock.getDelayedCalls())))
                if ok:
                    want = sorted((t, p) for t, ps in st["assignment"].items() for p in ps)
                    have = sorted((c.topic, c.partition) for c in running())
                    ctx.check(want == have, "partitions-consumed-again", "assigned %r, running consumers %r" % (want, have))
        if st["stop_called"]:
            for _ in range(60):
                if st["stop_done"]:
                    break
                run_auto()
                if choosable():
                    answer(choosable()[0])
                elif next_timer(clock) is not None:
                    fire_next_timer(clock)
                else:
                    break
            ctx.check(st["stop_done"], "stop-completes", "the Deferred returned by stop() never fired")
            n_hist = len(client.history)
            for _ in range(5):
                if next_timer(clock) is None:
                    break
                fire_next_timer(clock)
            ctx.check(len(client.history) == n_hist and not running(), "nothing-after-stop-completes", "activity after stop() completed")
        after_event("end")
        ctx.log("end", st["joins"], len(consumers), bool(start_res))

    return run
