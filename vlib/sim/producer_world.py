"""Shared world for the Producer properties (C01, C09, C19): the real afkak.producer.Producer
against ContractClient, a symbolic event script, and three monitor groups."""
from twisted.internet.defer import CancelledError as TCancelledError
from twisted.internet.task import Clock
from twisted.python.failure import Failure

from afkak.common import (
    CODEC_GZIP,
    CODEC_NONE,
    BrokerResponseError,
    CancelledError,
    FailedPayloadsError,
    KafkaUnavailableError,
    LeaderUnavailableError,
    ProduceResponse,
    RequestTimedOutError,
    UnknownTopicOrPartitionError,
)
from afkak.producer import Producer

from vlib.sim.contract import ContractClient, fire_next_timer, next_timer
from vlib.symrun import sym_and, sym_or

FACTOR = 1.20205  # documented retry factor; deliberately not read from the code

ERR_CODES = [6, 10, 3, 7, 999]  # NotLeader, MessageSizeTooLarge, UnknownTopicOrPartition, RequestTimedOut, unknown


def decode_payload(payload):
    """[(key, value)] carried by a ProduceRequest payload, compression undone."""
    out = []
    for m in payload.messages:
        if (m.attributes & 3) == CODEC_GZIP:
            from afkak.codec import gzip_decode
            from afkak.kafkacodec import KafkaCodec

            for _off, inner in KafkaCodec._decode_message_set_iter(gzip_decode(m.value)):
                out.append((inner.key, inner.value))
        else:
            out.append((m.key, m.value))
    return out


class Send:
    def __init__(self, idx, topic, key, msgs):
        self.idx = idx
        self.topic = topic
        self.key = key
        self.msgs = msgs
        self.chunk = [(key, m) for m in msgs]
        self.d = None
        self.res = []  # results with which the caller's Deferred fired
        self.cancelled = False  # cancel() called by the script
        self.acked_tp = None  # (topic, partition) of an error-free ack for a request carrying the chunk
        self.handed = False  # a request carrying the chunk was written (acks=0)
        self.t_submit = None
        self.first_req_time = None
        self.in_requests = 0


def variant(i, v):
    if v == 0:
        return b"k%d" % i, [b"v"]
    if v == 1:
        return None, [None, b"x%d" % i]
    return b"k%d" % i, [b"", b"y%d" % i + b"L" * 5]


def make_scenario(job, groups):
    """groups: subset of {'ack', 'order', 'batch', 'rr'} -- which monitor groups are active."""
    K = job["K"]
    acks = job["acks"]
    S = job["sends"]

    def run(ctx):
        clock = Clock()
        client = ContractClient(ctx, clock, api_versions=job.get("api", 0))
        nparts = job.get("parts", 2)
        client.topic_partitions["t"] = list(range(nparts))
        client.topic_errors["t"] = 0
        sends = []
        st = {
            "sync_left": job.get("sync_budget", 2),
            "faults": job["faults"],
            "stopped": False,
            "batches": [],  # per batch (sequence of attempts): list of request records
            "cur": None,
            "reqs_after_stop": 0,
            "last_resolve_time": None,
            "idle_since": 0.0,
        }
        kw = {}
        sym_thresholds = job.get("sym_thresholds")
        if job.get("batch"):
            if sym_thresholds:
                bn = ctx.int("every_n", 0, sym_thresholds[0])
                bb = ctx.int("every_b", 0, sym_thresholds[1])
                if not ctx.assume(sym_or(bn > 0, bb > 0, job["batch_t"] > 0)):
                    return
            else:
                bn, bb = job["batch_n"], job["batch_b"]
            kw = dict(batch_send=True, batch_every_n=bn, batch_every_b=bb, batch_every_t=job["batch_t"])
        else:
            bn = bb = 1
        bt = job.get("batch_t", 0) if job.get("batch") else 0
        maxatt = ctx.int("max_attempts", 1, job["max_attempts"]) if job.get("sym_attempts", True) else job["max_attempts"]
        interval = job.get("interval", 0.25)
        selections = []  # (partition list, selected partition) in the order the producer asked its partitioner
        if "rr" in groups:
            from afkak.partitioner import RoundRobinPartitioner

            class RecordingRoundRobin(RoundRobinPartitioner):
                def partition(self, key, partitions):
                    p_ = RoundRobinPartitioner.partition(self, key, partitions)
                    selections.append((tuple(partitions), p_))
                    return p_

            kw["partitioner_class"] = RecordingRoundRobin
        producer = Producer(
            client, req_acks=acks, max_req_attempts=maxatt, retry_interval=interval, codec=job.get("codec", CODEC_NONE), **kw
        )
        ctx.sig(
            "acks=%s batch=%s codec=%s api=%s"
            % (acks, (job.get("batch_n"), job.get("batch_b"), bt) if job.get("batch") else None, job.get("codec", 0), job.get("api", 0))
        )

        # ---------------------------------------------------------------- request monitor
        def on_request(kind, p):
            if kind == "metadata":
                ctx.log("metadata-req", p.args["topics"])
                return
            if kind != "produce":
                return
            now = clock.seconds()
            if st["stopped"] and "batch" in groups:
                ctx.check(False, "nothing-transmitted-after-stop", "produce request issued after stop() was called")
            ctx.check(
                p.args["acks"] == acks and p.args["fail_on_error"] is False, "produce-request-parameters", repr(p.args["acks"])
            )
            if "order" in groups or "batch" in groups or "ack" in groups:
                ctx.check(len(client.outstanding("produce")) <= 1, "one-produce-request-in-flight", "a later batch/attempt dispatched while one is unresolved")
            rec = {"t": now, "payloads": {}, "p": p, "outcome": None}
            tps = []
            for pl in p.args["payloads"]:
                tp = (pl.topic, pl.partition)
                ctx.check(tp not in rec["payloads"], "one-payload-per-partition", "two payloads for %r" % (tp,))
                pairs = decode_payload(pl)
                rec["payloads"][tp] = {"pairs": pairs, "sends": [], "payload": pl}
                tps.append(tp)
            cur = st["cur"]
            is_retry = False
            if cur is not None and cur["failed_prev"]:
                if len(cur["attempts"]) < maxatt:  # solver-decided when the limit is symbolic
                    is_retry = True
            first_attempt = not is_retry
            if first_attempt:
                cur = st["cur"] = {"attempts": [], "acked": set(), "failed_prev": None, "t_prev": None, "sends": set(),
                                   "meta_fails": st.pop("meta_fails_pending", 0)}
                st["batches"].append(cur)
            # segment each payload into sends, in submission order
            for tp in tps:
                ent = rec["payloads"][tp]
                rest = list(ent["pairs"])
                last_idx = -1
                while rest:
                    hit = None
                    for s in sends:
                        if s.topic == tp[0] and rest[: len(s.chunk)] == s.chunk and s not in ent["sends"]:
                            hit = s
                            break
                    if hit is None:
                        ctx.check(False, "payload-is-concatenation-of-sends", "payload %r carries %r which is no send's messages" % (tp, rest[:3]))
                        break
                    if "order" in groups:
                        ctx.check(hit.idx > last_idx, "per-partition-submission-order", "send %d after send %d in payload %r" % (hit.idx, last_idx, tp))
                    last_idx = hit.idx
                    ent["sends"].append(hit)
                    rest = rest[len(hit.chunk) :]
            msg_count = {}
            for tp in tps:
                for s in rec["payloads"][tp]["sends"]:
                    msg_count[s.idx] = msg_count.get(s.idx, 0) + 1
            if "order" in groups:
                ctx.check(all(v == 1 for v in msg_count.values()), "each-message-in-exactly-one-payload-per-attempt", repr(msg_count))
            for tp in tps:
                for s in rec["payloads"][tp]["sends"]:
                    if "batch" in groups:
                        ctx.check(not (s.cancelled and s.in_requests == 0 and s.cancel_before_dispatch), "cancelled-before-dispatch-never-transmitted", "send %d" % s.idx)
                    if getattr(s, "part", None) is None:
                        s.part = tp[1]
                    if first_attempt:
                        ctx.check(s.in_requests == 0, "each-send-dispatched-in-one-batch", "send %d appears in a second batch (retry beyond the attempt limit or duplicate dispatch)" % s.idx)
                    s.in_requests += 1
                    if s.first_req_time is None:
                        s.first_req_time = now
                    cur["sends"].add(s.idx)
            if "order" in groups:
                if first_attempt:
                    # sends must leave in submission order across batches too: every send of this batch
                    # is later than any send of an earlier batch routed to the same partition
                    for tp in tps:
                        ids = [s.idx for s in rec["payloads"][tp]["sends"]]
                        for b in st["batches"][:-1]:
                            for a in b["attempts"][:1]:
                                if tp in a["payloads"]:
                                    prev = [s.idx for s in a["payloads"][tp]["sends"]]
                                    ctx.check(not prev or not ids or max(prev) < min(ids), "per-partition-submission-order", "batch order inverted on %r" % (tp,))
                else:
                    prev = cur["attempts"][-1]
                    failed = cur["failed_prev"] or set()
                    for tp in tps:
                        ctx.check(tp not in cur["acked"], "acknowledged-payload-never-resent", "%r was acknowledged in an earlier attempt and is sent again" % (tp,))
                        ctx.check(tp in failed, "only-failed-payloads-retried", "%r retried but did not fail" % (tp,))
                    ctx.check(set(tps) == set(failed), "all-failed-payloads-retried", "failed %r, retried %r" % (sorted(failed), sorted(tps)))
                    for tp in tps:
                        if tp in prev["payloads"]:
                            a_ = [s.idx for s in prev["payloads"][tp]["sends"]]
                            b_ = [s.idx for s in rec["payloads"][tp]["sends"]]
                            ctx.check(a_ == b_, "retry-carries-the-same-messages", "retry of %r carries sends %r, the failed attempt carried %r (a later batch overtook an unresolved one)" % (tp, b_, a_))
                    k = len(cur["attempts"]) - 1
                    exp = interval
                    for _ in range(k):
                        exp *= FACTOR
                    if cur["t_prev"] is not None and not job.get("two_topics"):
                        ctx.check(abs((now - cur["t_prev"]) - exp) < 1e-9, "retry-delay-geometric", "retry %d after %r s, expected %r s" % (k + 1, now - cur["t_prev"], exp))
                ctx.check(len(cur["attempts"]) + 1 <= maxatt, "attempts-bounded-by-maximum", "attempt %d" % (len(cur["attempts"]) + 1))
            cur["attempts"].append(rec)
            ctx.log("produce-req", sorted((tp, [s.idx for s in rec["payloads"][tp]["sends"]]) for tp in tps))
            if job.get("sync") and (st["faults"] > 0 or job["sync"] == "any") and st["sync_left"] > 0 and not st.get("in_sync") and ctx.choose("sync_answer", 2) == 1:
                st["sync_left"] -= 1
                # the client answers before send_produce_request() returns (a Deferred that has already fired: closed
                # client, cached routing error, send failure): the producer's handlers then run inside its own addBoth
                ctx.log("answered-synchronously")
                st["in_sync"] = True
                try:
                    resolve_produce(p)
                finally:
                    st["in_sync"] = False

        client.on_request = on_request

        # ---------------------------------------------------------------- caller-side monitor
        def on_result(r, s):
            s.res.append(r)
            ctx.check(len(s.res) == 1, "fires-exactly-once", "send %d fired %d times" % (s.idx, len(s.res)))
            if job.get("resend") and len(sends) < S and not st["stopped"] and ctx.choose("resend", 2) == 1:
                # the application submits another send from the result handler of this one
                ctx.log("send-from-callback", s.idx)
                do_send()
            if isinstance(r, Failure):
                ctx.log("send-failed", s.idx, type(r.value).__name__)
                return None
            ctx.log("send-ok", s.idx, r if not isinstance(r, ProduceResponse) else (r.topic, r.partition, r.error, r.offset))
            if "ack" not in groups:
                return None
            if acks == 0:
                ctx.check(r is None, "acks0-succeeds-with-no-value", "value %r" % (r,))
                ctx.check(s.handed, "acks0-success-only-after-handover", "send %d succeeded before a request carrying it was written" % s.idx)
                return None
            good = isinstance(r, ProduceResponse)
            ctx.check(good, "success-value-is-error-free-response", "send %d 'succeeded' with %r" % (s.idx, r))
            if good:
                ctx.check(r.error == 0, "success-value-is-error-free-response", "send %d succeeded with error code %r" % (s.idx, r.error))
                ctx.check(
                    s.acked_tp is not None and (r.topic, r.partition) == s.acked_tp,
                    "success-only-if-leader-acknowledged-those-messages",
                    "send %d result names %r, acknowledged on %r" % (s.idx, (r.topic, r.partition), s.acked_tp),
                )
            return None

        # ---------------------------------------------------------------- script actions
        def do_send():
            i = len(sends)
            topic = "t" if not job.get("two_topics") or ctx.choose("topic", 2) == 0 else "u"
            nv = job.get("variants", 3)
            v = ctx.choose("variant", nv) if nv > 1 else 0
            key, msgs = variant(i, v)
            s = Send(i, topic, key, msgs)
            s.cancel_before_dispatch = False
            s.t_submit = clock.seconds()
            sends.append(s)
            ctx.log("send", i, topic, v)
            s.d = producer.send_messages(topic, key=key, msgs=msgs)
            s.d.addBoth(on_result, s)
            s.d.addErrback(lambda f: None)

        def resolve_produce(p):
            cur = st["cur"]
            rec = cur["attempts"][-1]
            tps = list(rec["payloads"].keys())
            kinds = [0]
            if st["faults"] > 0:
                kinds += [1, 2, 3] if acks != 0 else [1, 2, 4]
            whole = kinds[ctx.choose("call_outcome", len(kinds))] if len(kinds) > 1 else 0
            st["last_resolve_time"] = clock.seconds()
            cur["t_prev"] = clock.seconds()
            if whole == 1:
                st["faults"] -= 1
                # a Kafka-level failure of the whole call: a broker error code, or the client being unable to reach any broker
                # while re-resolving the leaders (KafkaUnavailableError is a KafkaError but not a BrokerResponseError)
                which = ctx.choose("call_error", 2)
                ctx.log("produce-fails", "LeaderUnavailable" if which == 0 else "KafkaUnavailable")
                cur["failed_prev"] = set(tps)
                n_att = len(cur["attempts"])
                pend_before = [s for tp in tps for s in rec["payloads"][tp]["sends"] if not s.res]
                finish_if_done(cur, all_failed=True)
                client.fail(p, LeaderUnavailableError("no leader") if which == 0 else KafkaUnavailableError("no broker reachable"))
                # with attempts left the producer retries; it does not give up on a retriable failure before the limit
                gave_up = [s.idx for s in pend_before if s.res and not s.cancelled]
                used = n_att + cur.get("meta_fails", 0)
                ctx.check(sym_or(used >= maxatt, not gave_up), "retriable-failure-retried-until-attempt-limit",
                          "after %d of %s attempts (produce + failed metadata loads) a retriable failure made the producer fail sends %r at once" % (used, maxatt, gave_up))
                return
            if whole == 2:
                st["faults"] -= 1
                ctx.log("produce-fails", "non-kafka")
                cur["failed_prev"] = set()
                st["cur"] = None
                client.fail(p, RuntimeError("boom"))
                return
            if whole == 3:
                st["faults"] -= 1
                ctx.log("produce-empty-result")
                st["cur"] = None
                client.resolve(p, [])
                return
            if whole == 4:
                # acks=0 and a broker connection that never took the request: the real client reports the payloads as failed
                st["faults"] -= 1
                nfail = 1 + (ctx.choose("acks0_failed", len(tps)) if len(tps) > 1 else 0)
                bad = tps[:nfail]
                for tp in tps[nfail:]:
                    for s in rec["payloads"][tp]["sends"]:
                        s.handed = True
                cur["failed_prev"] = set(bad)
                ctx.log("produce-acks0-failed", bad)
                finish_if_done(cur, all_failed=False)
                client.fail(p, FailedPayloadsError([], [(rec["payloads"][tp]["payload"], Failure(RequestTimedOutError("never written"))) for tp in bad]))
                return
            if acks == 0:
                for tp in tps:
                    for s in rec["payloads"][tp]["sends"]:
                        s.handed = True
                ctx.log("produce-written")
                st["cur"] = None
                client.resolve(p, [])
                return
            responses, failed = [], []
            fset = set()
            for tp in tps:
                ks = [0]
                if st["faults"] > 0:
                    ks += [1, 2]
                k = ks[ctx.choose("payload_outcome", len(ks))] if len(ks) > 1 else 0
                if k == 0:
                    off = ctx.int("ack_offset", 0, 2**62)
                    responses.append(ProduceResponse(tp[0], tp[1], 0, off))
                    cur["acked"].add(tp)
                    for s in rec["payloads"][tp]["sends"]:
                        if s.acked_tp is None:
                            s.acked_tp = tp
                elif k == 1:
                    st["faults"] -= 1
                    code = ERR_CODES[ctx.choose("errcode", job.get("errcodes", 2))]
                    responses.append(ProduceResponse(tp[0], tp[1], code, -1))
                    fset.add(tp)
                else:
                    st["faults"] -= 1
                    failed.append((rec["payloads"][tp]["payload"], Failure(RequestTimedOutError("timed out"))))
                    fset.add(tp)
            cur["failed_prev"] = fset
            ctx.log("produce-reply", [(r.topic, r.partition, r.error) for r in responses], [(f[0].topic, f[0].partition) for f in failed])
            finish_if_done(cur, all_failed=False)
            if failed:
                client.fail(p, FailedPayloadsError(responses, failed))
            else:
                client.resolve(p, responses)

        def finish_if_done(cur, all_failed):
            # the batch is resolved when nothing failed (or attempts are exhausted: the producer decides; we only
            # need to know when a *new* batch may legitimately start, which is when no retry follows)
            if not cur["failed_prev"]:
                st["cur"] = None
                st["idle_since"] = clock.seconds()

        def resolve_metadata(p):
            ok = st["faults"] <= 0 or ctx.choose("metadata_outcome", 2) == 0
            for t in p.args["topics"]:
                if ok:
                    client.topic_partitions[t] = list(range(nparts)) if (job.get("rr") and t == "t") else [0]
                    client.topic_errors[t] = 0
                else:
                    client.topic_errors[t] = UnknownTopicOrPartitionError.errno
            if not ok:
                st["faults"] -= 1
                # a failed metadata load uses up one of the batch's attempts (Producer._req_attempts counts both kinds)
                if st["cur"] is not None:
                    st["cur"]["meta_fails"] = st["cur"].get("meta_fails", 0) + 1
                else:
                    st["meta_fails_pending"] = st.get("meta_fails_pending", 0) + 1
            ctx.log("metadata-reply", ok)
            client.resolve(p, True)

        def batch_monitor(where):
            if "batch" not in groups or not job.get("batch"):
                return
            reqs = producer._batch_reqs
            # a cancelled send must have left the queue (and with it the threshold accounting): the counts are compared with
            # the queued sends the *application* still has outstanding
            for s_ in sends:
                if s_.cancelled and s_.res:
                    ctx.check(not any(r.deferred is s_.d for r in reqs), "cancelled-send-leaves-the-queue", "%s: cancelled send %d is still queued" % (where, s_.idx))
            live_reqs = [r for r in reqs if not any(r.deferred is s_.d and s_.cancelled for s_ in sends)]
            cnt = sum(len(r.messages) for r in live_reqs)
            byt = sum(len(m) for r in live_reqs for m in r.messages if m is not None)
            ctx.check(
                sym_and(producer._waitingMsgCount == cnt, producer._waitingByteCount == byt),
                "waiting-counts-equal-queue-contents",
                "%s: counts (%r,%r) but queue holds (%d,%d)" % (where, producer._waitingMsgCount, producer._waitingByteCount, cnt, byt),
            )
            idle = producer._batch_send_d is None and not client.outstanding("produce") and not client.outstanding("metadata")
            if not idle:
                st["busy"] = True
            elif st.get("busy"):
                st["busy"] = False
                st["idle_since"] = clock.seconds()
            if idle and not st["stopped"] and bt and reqs:
                oldest = min(s.t_submit for s in sends if any(r.deferred is s.d for r in reqs))
                waited = clock.seconds() - max(oldest, st["idle_since"])
                ctx.check(
                    waited <= bt + 1e-9,
                    "no-message-waits-longer-than-one-period",
                    "%s: a queued message has waited %r s while idle (period %r)" % (where, waited, bt),
                )
            if idle and not st["stopped"]:
                due = sym_or(sym_and(bn > 0, cnt >= bn), sym_and(bb > 0, byt >= bb))
                ctx.check(
                    sym_or(cnt == 0, due == False) if not isinstance(due, bool) else (cnt == 0 or not due),  # noqa: E712
                    "dispatch-at-first-moment-threshold-met",
                    "%s: idle with %d msgs / %d bytes queued, thresholds n=%r b=%r" % (where, cnt, byt, bn, bb),
                )

        # ---------------------------------------------------------------- the script
        ev = 0
        nsends = 0
        while ev < K:
            acts = []
            if len(sends) < S and not st["stopped"]:
                acts.append(0)
            prod = client.outstanding("produce")
            meta = client.outstanding("metadata")
            if prod:
                acts.append(1)
            if meta:
                acts.append(2)
            if next_timer(clock) is not None and not st["stopped"]:
                acts.append(3)
            cancellable = [s for s in sends if not s.res and not s.cancelled]
            if job.get("cancel") and cancellable and not st["stopped"]:
                acts.append(4)
            if job.get("stop") and not st["stopped"] and ev >= 1:
                acts.append(5)
            if not acts:
                break
            a = ctx.choose("ev", 6, enabled=acts)
            ev += 1
            try:
                if a == 0:
                    nsends += 1
                    do_send()
                elif a == 1:
                    resolve_produce(prod[0])
                elif a == 2:
                    resolve_metadata(meta[0])
                elif a == 3:
                    ctx.log("timer", fire_next_timer(clock))
                elif a == 4:
                    s = cancellable[ctx.choose("cancel_which", len(cancellable))] if len(cancellable) > 1 else cancellable[0]
                    s.cancelled = True
                    s.cancel_before_dispatch = any(r.deferred is s.d for r in producer._batch_reqs)
                    ctx.log("cancel", s.idx, s.cancel_before_dispatch)
                    s.d.cancel()
                    ctx.check(len(s.res) == 1 and isinstance(s.res[0], Failure), "cancel-fails-the-send-at-once", "send %d after cancel: %r" % (s.idx, s.res))
                elif a == 5:
                    ctx.log("stop")
                    st["stopped"] = True
                    outstanding = [s for s in sends if not s.res]
                    producer.stop()
                    for s in outstanding:
                        failed = len(s.res) == 1 and isinstance(s.res[0], Failure)
                        ctx.check(failed, "stop-fails-every-outstanding-send", "send %d after stop(): %r" % (s.idx, s.res))
                        if failed and "batch" in groups:
                            # reading: a send whose partition lookup had already failed terminally before stop()
                            # (topic still in error after the attempt quota) reports that routing error; every
                            # other outstanding send must fail with a cancellation error
                            routing = (
                                s.res[0].check(BrokerResponseError) is not None
                                and client.metadata_error_for_topic(s.topic) != 0
                                and s.in_requests == 0
                            )
                            ctx.check(
                                routing or s.res[0].check(CancelledError, TCancelledError) is not None,
                                "stop-fails-every-outstanding-send-with-cancellation",
                                "send %d after stop(): %r" % (s.idx, s.res),
                            )
            except Exception as e:  # noqa
                import traceback

                ctx.check(False, "no-exception-escapes-producer", "%r\n%s" % (e, traceback.format_exc()[-1500:]))
                return
            batch_monitor("after event %d" % ev)
        # ---------------------------------------------------------------- drain: benign completions only
        st["faults"] = 0
        for _ in range(40):
            prod = client.outstanding("produce")
            meta = client.outstanding("metadata")
            try:
                if prod:
                    resolve_produce(prod[0])
                elif meta:
                    resolve_metadata(meta[0])
                elif next_timer(clock) is not None and not st["stopped"] and any(not s.res for s in sends):
                    fire_next_timer(clock)
                else:
                    break
            except Exception as e:  # noqa
                ctx.check(False, "no-exception-escapes-producer", repr(e))
                return
            batch_monitor("drain")
        lost = [s.idx for s in sends if not s.res and s.in_requests > 0]
        ctx.check(not lost, "fires-exactly-once", "sends %r were dispatched, every request is resolved, yet their Deferreds never fired" % (lost,))
        if not st["stopped"]:
            # a send that has not fired once everything is resolved and no timer is left must still be waiting in the queue for
            # a batching threshold; one that left the queue (was dispatched) and never fired is lost
            hung = [s.idx for s in sends if not s.res and not any(r.deferred is s.d for r in producer._batch_reqs)]
            ctx.check(not hung, "fires-exactly-once", "sends %r left the queue, nothing is outstanding any more, yet their Deferreds never fired" % (hung,))
        if any(not s.res for s in sends) and not st["stopped"] and job.get("batch"):
            # sends still queued below the batching thresholds: stopping must fail them (they then have fired once)
            st["stopped"] = True
            try:
                producer.stop()
            except Exception as e:  # noqa
                ctx.check(False, "no-exception-escapes-producer", repr(e))
                return
        pending_final = [s.idx for s in sends if not s.res]
        ctx.check(not pending_final, "fires-exactly-once", "sends %r never fired after the script was drained" % (pending_final,))
        if "ack" in groups and acks != 0:
            for s in sends:
                if s.res and not isinstance(s.res[0], Failure):
                    ctx.check(s.acked_tp is not None, "success-only-if-leader-acknowledged-those-messages", "send %d" % s.idx)
        if "rr" in groups:
            # the producer keeps one round-robin partitioner per topic: with an unchanged ascending partition list the selections
            # made for successive sends walk the cycle, whatever errors, retries and metadata reloads happened in between
            seq = [p_ for (lst, p_) in selections if lst == tuple(range(nparts))]
            ctx.check(len(seq) == len(selections), "round-robin-fair-across-sends", "partition lists offered: %r" % ([l for l, _ in selections],))
            for j, p_ in enumerate(seq):
                ctx.check(p_ == (seq[0] + j) % nparts, "round-robin-fair-across-sends",
                          "successive selections on the unchanged list %r: %r" % (list(range(nparts)), seq))
        ctx.log("end", [(s.idx, "F" if isinstance(s.res[0], Failure) else "ok") if s.res else (s.idx, "-") for s in sends])

    return run
