"""SimNet: an in-memory network for the real _KafkaBrokerClient / KafkaProtocol / KafkaClient.

* SimNet.endpoint_factory(reactor, host, port) -> SimEndpoint; every connect() is recorded as an
  Attempt whose Deferred the scenario resolves (established / refused) -- or never.
* SimTransport records every byte written, exposes the frames written so far, and turns
  loseConnection() into a pending "closed" notification that the scenario delivers.
* The broker side is driven by the scenario: deliver(bytes) feeds dataReceived.
"""
import struct

from twisted.internet import address, error
from twisted.internet.defer import Deferred
from twisted.python.failure import Failure


class Attempt:
    def __init__(self, net, host, port, factory, t):
        self.net = net
        self.host = host
        self.port = port
        self.factory = factory
        self.t = t
        self.state = "pending"  # pending | established | refused | cancelled
        self.transport = None
        self.proto = None

        def _cancel(d):
            self.state = "cancelled"

        self.d = Deferred(_cancel)

    def establish(self):
        assert self.state == "pending"
        self.state = "established"
        addr = address.IPv4Address("TCP", self.host if isinstance(self.host, str) else "h", self.port)
        proto = self.factory.buildProtocol(addr)
        tr = SimTransport(self.net, self, addr)
        self.transport = tr
        self.proto = proto
        tr.proto = proto
        self.net.transports.append(tr)
        proto.makeConnection(tr)
        self.d.callback(proto)
        return tr

    def refuse(self):
        assert self.state == "pending"
        self.state = "refused"
        self.d.errback(Failure(error.ConnectionRefusedError("refused")))


class SimEndpoint:
    def __init__(self, net, reactor, host, port):
        self.net, self.reactor, self.host, self.port = net, reactor, host, port

    def connect(self, factory):
        a = Attempt(self.net, self.host, self.port, factory, self.reactor.seconds())
        self.net.attempts.append(a)
        if self.net.on_attempt is not None:
            self.net.on_attempt(a)
        if (self.host, self.port) in self.net.sync_accept:
            # an endpoint that connects before connect() returns (in-memory transports; maybeDeferred in the broker client
            # exists to allow exactly this)
            a.establish()
        elif (self.host, self.port) in self.net.sync_refuse:
            # an endpoint whose connect() fails before returning (e.g. HostnameEndpoint with an invalid host name)
            a.refuse()
        return a.d


class SimTransport:
    disconnecting = False

    def __init__(self, net, attempt, addr):
        self.net = net
        self.attempt = attempt
        self.addr = addr
        self.proto = None
        self.written = bytearray()
        self.lose_requested = False
        self.closed = False
        self.writes_after_lose = 0
        self.t_open = attempt.t

    # ITransport ------------------------------------------------------------
    def write(self, data):
        if self.closed or self.lose_requested:
            self.writes_after_lose += 1
            return
        self.written += data
        if self.net.on_write is not None:
            self.net.on_write(self, bytes(data))

    def writeSequence(self, seq):
        for d in seq:
            self.write(d)

    def loseConnection(self):
        if not self.closed:
            self.lose_requested = True
            self.disconnecting = True

    def abortConnection(self):
        self.loseConnection()

    def getPeer(self):
        return self.addr

    def getHost(self):
        return self.addr

    def registerProducer(self, *a):
        pass

    def unregisterProducer(self):
        pass

    # scenario side -----------------------------------------------------------
    def frames(self):
        """complete length-prefixed frames written so far -> [payload bytes]"""
        out = []
        buf = bytes(self.written)
        pos = 0
        while pos + 4 <= len(buf):
            (n,) = struct.unpack(">i", buf[pos : pos + 4])
            if pos + 4 + n > len(buf):
                break
            out.append(buf[pos + 4 : pos + 4 + n])
            pos += 4 + n
        return out

    def deliver(self, data):
        if not self.closed:
            self.proto.dataReceived(data)

    def drop(self, reason=None):
        """the connection goes away (peer reset, or completion of loseConnection)"""
        if self.closed:
            return
        self.closed = True
        self.disconnecting = False
        self.proto.connectionLost(Failure(reason or error.ConnectionDone("closed")))


class SimNet:
    def __init__(self):
        self.attempts = []
        self.transports = []
        self.on_attempt = None
        self.sync_accept = set()  # (host, port) whose connect() returns an already-connected protocol
        self.sync_refuse = set()  # (host, port) whose connect() returns an already-failed Deferred
        self.on_write = None

    def endpoint_factory(self, reactor, host, port):
        return SimEndpoint(self, reactor, host, port)

    def pending_attempts(self):
        return [a for a in self.attempts if a.state == "pending"]

    def open_transports(self):
        return [t for t in self.transports if not t.closed]

    def closing_transports(self):
        return [t for t in self.transports if t.lose_requested and not t.closed]


def frame(payload):
    return struct.pack(">i", len(payload)) + payload
