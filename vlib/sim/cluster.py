"""SimCluster: simulated Kafka brokers for the real KafkaClient over SimNet.

Each broker node has an address; requests arriving on a connection are parsed with the
*reference parser* and answered with the *reference encoder* (vlib/ref/kafka_ref.py), so the
real afkak codec runs on both directions.  The scenario decides when/whether each request is
answered; the cluster keeps per-broker request logs (the ground truth for routing properties)."""
import struct

from vlib.ref import kafka_ref as ref
from vlib.sim.net import SimNet, frame

NOT_LEADER = 6
UNKNOWN_TOPIC = 3
NOT_COORDINATOR = 16
COORD_NOT_AVAILABLE = 15


class Inbound:
    """a request that arrived at a broker and has not been answered yet"""

    def __init__(self, node, transport, raw, parsed, t):
        self.node = node
        self.transport = transport
        self.raw = raw
        self.q = parsed
        self.t = t
        self.answered = False

    @property
    def api(self):
        return self.q["api_key"]


class SimCluster:
    def __init__(self, clock, net=None):
        self.clock = clock
        self.net = net or SimNet()
        self.addr = {}  # node -> (host, port)
        self.leaders = {}  # (topic, partition) -> node or -1
        self.topic_errors = {}
        self.coordinator = {}  # group -> node
        self.logs = {}  # (topic, partition) -> [(key, value)] appended by produce
        self.offsets = {}  # (group, topic, partition) -> committed offset
        self.requests = []  # every Inbound, in arrival order
        self.bootstrap = []  # addresses that act as bootstrap-only hosts
        self._seen = {}  # transport -> number of frames already turned into Inbound
        self.net.on_write = self._on_write
        self.error_for = {}  # (api, topic, partition) -> error code to answer with
        self.commit_log = []
        self.applied = {}  # (topic, partition) -> parsed messages [(offset, dict)] of every produce the leader applied

    # ------------------------------------------------------------------ topology
    def add_broker(self, node, host=None, port=None):
        self.addr[node] = (host or "b%d" % node, port or 9092 + node)

    def node_at(self, host, port):
        for n, a in self.addr.items():
            if a == (host, port):
                return n
        return None

    # ------------------------------------------------------------------ traffic
    def _on_write(self, tr, data):
        frames = tr.frames()
        k = self._seen.get(tr, 0)
        for raw in frames[k:]:
            try:
                q = ref.parse_request(raw)
            except ref.ParseError as e:
                q = {"api_key": None, "error": str(e), "correlation_id": struct.unpack(">i", raw[4:8])[0] if len(raw) >= 8 else None}
            node = self.node_at(tr.attempt.host, tr.attempt.port)
            self.requests.append(Inbound(node, tr, raw, q, self.clock.seconds()))
        self._seen[tr] = len(frames)

    def unanswered(self, node=None):
        return [r for r in self.requests if not r.answered and not r.transport.closed and (node is None or r.node == node)]

    def answer(self, inb, chunks=None):
        """Send the protocol-correct response for an inbound request (None for acks=0 produce)."""
        inb.answered = True
        resp = self.response_for(inb)
        if resp is None:
            return None
        data = frame(resp)
        if inb.transport.closed:
            return resp
        if chunks:
            pos = 0
            for c in chunks:
                inb.transport.deliver(data[pos:c])
                pos = c
            inb.transport.deliver(data[pos:])
        else:
            inb.transport.deliver(data)
        return resp

    # ------------------------------------------------------------------ protocol behaviour
    def metadata(self, corr, topics):
        brokers = [(n, h.encode(), p) for n, (h, p) in sorted(self.addr.items())]
        names = topics if topics else sorted({t for (t, _p) in self.leaders})
        tms = []
        for t in names:
            parts = sorted(p for (tt, p) in self.leaders if tt == t)
            err = self.topic_errors.get(t, 0 if parts else UNKNOWN_TOPIC)
            pms = []
            for p in parts:
                ld = self.leaders[(t, p)]
                pms.append((0 if ld != -1 else 5, p, ld, [ld] if ld != -1 else [], [ld] if ld != -1 else []))
            tms.append((err, t.encode(), pms))
        return ref.resp_metadata(corr, brokers, tms)

    def response_for(self, inb):
        q = inb.q
        corr = q["correlation_id"]
        api = q["api_key"]
        b = q.get("body")
        node = inb.node
        if api == 3:
            return self.metadata(corr, [t.decode() for t in b["topics"]])
        if api == 18:
            return ref.resp_api_versions(corr, 0, [(0, 0, 2), (1, 0, 2), (2, 0, 0), (3, 0, 0), (18, 0, 0)])
        if api == 10:
            g = b["group"].decode()
            n = self.coordinator.get(g)
            if n is None or n not in self.addr:
                return ref.resp_find_coordinator(corr, COORD_NOT_AVAILABLE, -1, b"", -1)
            h, p = self.addr[n]
            return ref.resp_find_coordinator(corr, 0, n, h.encode(), p)
        if api == 0:
            if b["acks"] == 0:
                for (t, ps) in b["topics"]:
                    for (p, ms) in ps:
                        if self.leaders.get((t.decode(), p)) == node:
                            self.logs.setdefault((t.decode(), p), []).extend((m["key"], m["value"]) for (_o, m) in ms)
                            self.applied.setdefault((t.decode(), p), []).extend(ms)
                return None
            out = []
            for (t, ps) in b["topics"]:
                parts = []
                for (p, ms) in ps:
                    tp = (t.decode(), p)
                    err = self.error_for.get((0,) + tp)
                    if err is None:
                        err = 0 if self.leaders.get(tp) == node else (NOT_LEADER if tp in self.leaders else UNKNOWN_TOPIC)
                    base = -1
                    if err == 0:
                        lg = self.logs.setdefault(tp, [])
                        base = len(lg)
                        lg.extend((m["key"], m["value"]) for (_o, m) in ms)
                        self.applied.setdefault(tp, []).extend(ms)
                    parts.append((p, err, base, -1))
                out.append((t, parts))
            return ref.resp_produce(corr, q["api_version"], out)
        if api == 1:
            out = []
            for (t, ps) in b["topics"]:
                parts = []
                for (p, off, mx) in ps:
                    tp = (t.decode(), p)
                    err = self.error_for.get((1,) + tp)
                    if err is None:
                        err = 0 if self.leaders.get(tp) == node else (NOT_LEADER if tp in self.leaders else UNKNOWN_TOPIC)
                    lg = self.logs.get(tp, [])
                    ms = b""
                    if err == 0:
                        ents = [(i, ref.encode_message(0, 0, k, v)) for i, (k, v) in enumerate(lg) if i >= off]
                        ms = ref.encode_message_set(ents)
                    parts.append((p, err, len(lg), ms))
                out.append((t, parts))
            return ref.resp_fetch(corr, q["api_version"], out)
        if api == 2:
            out = []
            for (t, ps) in b["topics"]:
                parts = []
                for (p, tm, mo) in ps:
                    tp = (t.decode(), p)
                    err = 0 if self.leaders.get(tp) == node else NOT_LEADER
                    lg = self.logs.get(tp, [])
                    parts.append((p, err, [len(lg) if tm == -1 else 0] if err == 0 else []))
                out.append((t, parts))
            return ref.resp_list_offsets(corr, out)
        if api == 8:
            g = b["group"].decode()
            out = []
            for (t, ps) in b["topics"]:
                parts = []
                for (p, off, ts, md) in ps:
                    err = 0 if self.coordinator.get(g) == node else NOT_COORDINATOR
                    if err == 0:
                        self.offsets[(g, t.decode(), p)] = off
                        self.commit_log.append((g, t.decode(), p, off, b["generation"], b["member"]))
                    parts.append((p, err))
                out.append((t, parts))
            return ref.resp_offset_commit(corr, out)
        if api == 9:
            g = b["group"].decode()
            out = []
            for (t, ps) in b["topics"]:
                parts = []
                for p in ps:
                    err = 0 if self.coordinator.get(g) == node else NOT_COORDINATOR
                    parts.append((p, self.offsets.get((g, t.decode(), p), -1), b"", err))
                out.append((t, parts))
            return ref.resp_offset_fetch(corr, out)
        raise AssertionError("SimCluster: no behaviour for api %r" % (api,))
