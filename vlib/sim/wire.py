"""Wire monitor for the contract-client worlds: whatever request object the real Coordinator / Consumer hands to
the client is encoded with the real KafkaCodec and parsed back by the independent reference parser
(vlib/ref/kafka_ref.py), which rejects null where the protocol has a non-nullable STRING.  Symbolic integers
(generation ids, offsets) are replaced by fixed in-range values first: the byte layout is C04's own subject,
this monitor is about the *values the state machines supply* on every path (C04, 'field values the caller
supplied', 'null-versus-empty distinction')."""
from afkak.kafkacodec import KafkaCodec

from vlib.ref import kafka_ref


def _c(x, default):
    return x if type(x) is int else default


def _b(s):
    return s.encode("utf-8") if isinstance(s, str) else s


def check_request(ctx, kind, args):
    """returns None or a description of the non-conformance"""
    try:
        if kind in ("join", "sync", "heartbeat", "leave"):
            pl = args["payload"]
            if kind == "join":
                data = KafkaCodec.encode_join_group_request(b"c", 1, pl)
                want = {"group": pl.group, "member": pl.member_id}
            elif kind == "sync":
                pl2 = type(pl)(pl.group, _c(pl.generation_id, 7), pl.member_id, pl.group_assignment)
                data = KafkaCodec.encode_sync_group_request(b"c", 1, pl2)
                want = {"group": pl.group, "member": pl.member_id}
            elif kind == "heartbeat":
                pl2 = type(pl)(pl.group, _c(pl.generation_id, 7), pl.member_id)
                data = KafkaCodec.encode_heartbeat_request(b"c", 1, pl2)
                want = {"group": pl.group, "member": pl.member_id}
            else:
                data = KafkaCodec.encode_leave_group_request(b"c", 1, pl)
                want = {"group": pl.group, "member": pl.member_id}
        elif kind == "commit":
            ps = [type(p)(p.topic, p.partition, _c(p.offset, 5), _c(p.timestamp, -1), p.metadata) for p in args["payloads"]]
            data = KafkaCodec.encode_offset_commit_request(b"c", 1, args["group"], _c(args["generation"], 7), args["member"], ps)
            want = {"group": args["group"], "member": args["member"]}
        elif kind == "offset_fetch":
            data = KafkaCodec.encode_offset_fetch_request(b"c", 1, args["group"], args["payloads"])
            want = {"group": args["group"]}
        elif kind == "coordinator":
            data = KafkaCodec.encode_consumermetadata_request(b"c", 1, args["group"])
            want = {"group": args["group"]}
        else:
            return None
    except Exception as e:  # noqa
        return "%s request cannot be encoded: %r" % (kind, e)
    try:
        parsed = kafka_ref.parse_request(bytes(data))
    except kafka_ref.ParseError as e:
        return "%s request does not parse under the reference implementation: %s" % (kind, e)
    for k, v in want.items():
        if not isinstance(v, str):
            return "%s request: field %s supplied as %r, not text" % (kind, k, v)
        if parsed["body"].get(k) != _b(v):
            return "%s request: field %s parses to %r, supplied %r" % (kind, k, parsed["body"].get(k), v)
    return None
