#!/bin/sh
# Build /verif/.venv offline: a venv of /venv's interpreter that also sees /venv's
# site-packages (afkak editable -> /repo, Twisted, attrs) plus crosshair-tool, z3-solver,
# cvc5, jsonschema from the offline wheelhouse.  Idempotent.
set -e
cd "$(dirname "$0")"
V=/verif/.venv
if [ ! -x "$V/bin/python" ] || ! "$V/bin/python" -c "import crosshair, z3, cvc5, jsonschema, twisted, afkak" 2>/dev/null; then
  rm -rf "$V"
  /venv/bin/python -m venv "$V"
  SP=$("$V/bin/python" -c "import sysconfig; print(sysconfig.get_paths()['purelib'])")
  echo "import site; site.addsitedir('/venv/lib/python3.12/site-packages')" > "$SP/_venv_overlay.pth"
  PIP_NO_INDEX=1 "$V/bin/pip" install -q --no-index --find-links /opt/veriftools/wheels \
      crosshair-tool z3-solver cvc5 jsonschema >/dev/null
  "$V/bin/python" -c "import crosshair, z3, cvc5, jsonschema, twisted, afkak"
fi
echo "setup ok: $("$V/bin/python" -c 'import z3,crosshair;print("z3",z3.get_version_string(),"crosshair",crosshair.__version__)' 2>/dev/null || echo '?')"
