"""C13 -- Consumer stop and shutdown leave nothing running and report once.

Engine B.  A catalogue of reachable Consumer states (concrete prefixes on the real class),
then stop() or shutdown() at that point, then every order of the completions that were
outstanding (symbolic suffix), then a restart."""
from twisted.internet.defer import Deferred
from twisted.internet.task import Clock
from twisted.python.failure import Failure

from afkak.common import (
    OFFSET_EARLIEST,
    FailedPayloadsError,
    FetchResponse,
    IllegalGeneration,
    Message,
    NotCoordinator,
    NotLeaderForPartitionError,
    OffsetAndMessage,
    OffsetCommitResponse,
    OffsetResponse,
    RequestTimedOutError,
)
from afkak.consumer import Consumer

from vlib.sim.contract import ContractClient, fire_next_timer, next_timer

ID = "C13"
ENGINE = "b"
TOPIC, PART = "t", 2

STATES = [
    "resolving-offsets",
    "fetching",
    "reply-parked",
    "processing-async",
    "inside-processor-sync",
    "inside-processor-async",
    "waiting-to-retry",
    "manual-commit-in-flight",
    "auto-commit-in-flight",
    "commit-in-backoff",
    "idle-after-processing",
    "commit-in-flight-while-processing",
    "offset-lookup-last-retry",
    "fetch-last-retry",
    "commit-in-backoff-more-progress",
    "commit-in-backoff-two-waiters",
]

REQUIRED_LABELS = [
    "start-deferred-fires-once-with-last-processed",
    "no-processor-call-after-stop",
    "no-client-request-after-stop",
    "no-timer-after-stop",
    "shutdown-deferred-fires-once",
    "graceful-shutdown-commits-everything",
    "restart-after-stop-delivers",
]

ASSUMPTIONS = [
    "KafkaClient replaced by ContractClient (cancelling a request Deferred fails it with CancelledError at once, as the real client does)",
    "states are reached by concrete prefixes on the real Consumer; the suffix after stop()/shutdown() is symbolic",
    "reactor = twisted Clock stepped to the next due timer; logging disabled",
]


def functions():
    return [
        Consumer.stop,
        Consumer.shutdown,
        Consumer.start,
        Consumer._handle_auto_commit_error,
        Consumer._handle_commit_error,
        Consumer._handle_processor_error,
        Consumer._handle_fetch_error,
        Consumer._handle_offset_error,
        Consumer._process_messages,
        Consumer._retry_fetch,
        Consumer._auto_commit,
        Consumer.commit,
        Consumer._commit_timer_stopped,
    ]


def bounds(tier):
    q = tier == "quick"
    return {
        "states": STATES,
        "actions": ["stop", "shutdown"],
        "suffix_events": 6 if q else 7,
        "configs": "no group | group with auto_commit_every_n=1 | group with auto_commit_every_ms=5000",
        "offsets": "symbolic o_1 in [0,2^62], gaps in [1,2^40]",
        "outside": "real KafkaClient underneath; states reachable only through >1 partition",
    }


def limits(tier):
    return {"validate": "all", "max_seconds": 900 if tier == "quick" else 3400}


def jobs(tier):
    q = tier == "quick"
    out = []
    for state in STATES:
        for action in ("stop", "shutdown"):
            for cfg in ("nogroup", "n1", "ms"):
                if cfg == "nogroup" and "commit" in state:
                    continue
                if state == "commit-in-backoff-more-progress" and cfg != "n1":
                    continue
                if state == "commit-in-backoff-two-waiters" and cfg != "ms":
                    continue
                if state == "commit-in-flight-while-processing" and cfg == "ms":
                    pass
                if state == "auto-commit-in-flight" and cfg == "nogroup":
                    continue
                if state.endswith("-last-retry"):
                    # the request that is outstanding is the last attempt request_retry_max_attempts allows (shutdown() itself
                    # lowers an unlimited consumer to 2 attempts)
                    if cfg == "ms":
                        continue
                    for limit in (2,) if action == "stop" else (2, 0):
                        out.append({"state": state, "action": action, "cfg": cfg, "K": 5 if q else 6, "retry_limit": limit})
                    continue
                out.append({"state": state, "action": action, "cfg": cfg, "K": 6 if q else 7})
                if state in ("resolving-offsets", "fetching", "reply-parked", "manual-commit-in-flight", "auto-commit-in-flight", "commit-in-flight-while-processing") and cfg != "nogroup":
                    # the same with a client that reports a cancelled in-flight request the way the real KafkaClient does
                    # (FailedPayloadsError carrying the cancelled payloads, not CancelledError)
                    out.append({"state": state, "action": action, "cfg": cfg, "K": 4 if q else 5, "cancel_mode": True})
    return out


class W:
    pass


def scenario(job):
    state, action, cfg, K = job["state"], job["action"], job["cfg"], job["K"]

    def run(ctx):
        w = W()
        n = 4
        offs = []
        for i in range(n):
            offs.append(ctx.int("o", 0, 2**62) if i == 0 else offs[-1] + ctx.int("gap", 1, 2**40))
        msgs = [Message(0, 0, None, b"v%d" % i) for i in range(n)]
        w.clock = Clock()
        w.client = ContractClient(ctx, w.clock)
        w.client.cancel_as_failed_payloads = bool(job.get("cancel_mode"))
        w.proc_ds = []
        w.pend = None
        w.proc_calls = 0
        w.stopped_at = None  # (proc_calls, len(history)) when stop() returned
        w.inside = None  # action to perform from inside the processor
        w.errors = []
        w.sd = None
        w.nxt = 0
        w.async_proc = state != "inside-processor-sync"
        w.committed = []
        w.explicit_stop = False
        ctx.sig("state=%s action=%s cfg=%s%s%s" % (state, action, cfg, "" if "retry_limit" not in job else " retry_limit=%d" % job["retry_limit"], " cancel-as-failed-payloads" if job.get("cancel_mode") else ""))

        def do_action():
            try:
                if action == "stop":
                    ctx.log("stop()")
                    r = w.consumer.stop()
                    ctx.check(
                        _same(r, w.consumer.last_processed_offset),
                        "stop-returns-last-processed",
                        "stop() returned %r, last_processed_offset=%r" % (r, w.consumer.last_processed_offset),
                    )
                    mark_stopped()
                else:
                    ctx.log("shutdown()")
                    w.sd = []
                    w.sd_at = []
                    sdd = w.consumer.shutdown()
                    sdd.addBoth(lambda r: (w.sd_at.append((w.consumer.last_committed_offset, w.consumer.last_processed_offset)), w.sd.append(r)) and None)
            except Exception as e:  # noqa
                w.errors.append(repr(e))
                ctx.check(False, "no-exception-from-stop-or-shutdown", repr(e))

        def mark_stopped():
            w.stopped_at = (w.proc_calls, len(w.client.history))

        def processor(consumer, block):
            w.proc_calls += 1
            ctx.log("proc", len(block))
            if w.inside:
                w.inside = None
                do_action()
            if w.async_proc:
                w.pend = Deferred()
                w.proc_ds.append(w.pend)
                return w.pend
            return None

        kw = {}
        if cfg == "n1":
            kw = dict(consumer_group="g", auto_commit_every_n=1, auto_commit_every_ms=0)
        elif cfg == "ms":
            kw = dict(consumer_group="g", auto_commit_every_n=0, auto_commit_every_ms=5000)
        if "retry_limit" in job:
            kw["request_retry_max_attempts"] = job["retry_limit"]
        w.consumer = c = Consumer(w.client, TOPIC, PART, processor, **kw)
        w.res = []

        def on_res(r):
            w.res.append(r)
            w.lp_at_res = w.consumer.last_processed_offset  # value at the moment the Deferred fires
            # consumer.stop() completing (from shutdown or directly) is observable here
            return None

        def block(k):
            """fetch reply with the next k log entries"""
            lo, hi = w.nxt, min(n, w.nxt + k)
            w.nxt = hi
            return [FetchResponse(TOPIC, PART, 0, 0, iter([OffsetAndMessage(offs[j], msgs[j]) for j in range(lo, hi)]))]

        def pending(kind):
            ps = w.client.outstanding(kind)
            return ps[0] if ps else None

        def proc_ok():
            d, w.pend = w.pend, None
            d.callback(None)

        # ------------------------------------------------------------------ prefixes
        start = offs[0] if state not in ("resolving-offsets", "offset-lookup-last-retry") else OFFSET_EARLIEST
        c.start(start).addBoth(on_res)
        if state == "resolving-offsets":
            pass
        elif state == "offset-lookup-last-retry":
            w.client.fail(pending("offset"), RequestTimedOutError("no reply"))
            fire_next_timer(w.clock)
            ctx.check(pending("offset") is not None and not w.res, "prefix-ok", "no retried offset lookup outstanding")
        elif state == "fetch-last-retry":
            w.client.fail(pending("fetch"), NotLeaderForPartitionError())
            fire_next_timer(w.clock)
            ctx.check(pending("fetch") is not None and not w.res, "prefix-ok", "no retried fetch outstanding")
        elif state == "fetching":
            pass
        elif state in ("processing-async", "reply-parked"):
            # (with a count-triggered commit of 1 a two-message reply is handed over in two sub-blocks: stop() lands in the first)
            w.client.resolve(pending("fetch"), block(2 if (cfg == "n1" and state == "processing-async") else 1))
            fire_next_timer(w.clock)  # refetch issued while processing
            if state == "reply-parked":
                w.client.resolve(pending("fetch"), block(1))
        elif state in ("inside-processor-sync", "inside-processor-async"):
            w.inside = action
            w.client.resolve(pending("fetch"), block(2))
        elif state == "waiting-to-retry":
            w.client.fail(pending("fetch"), NotLeaderForPartitionError())
        elif state == "idle-after-processing":
            w.client.resolve(pending("fetch"), block(1))
            proc_ok()
        elif state == "manual-commit-in-flight":
            w.client.resolve(pending("fetch"), block(1))
            if cfg == "n1":
                # the count-triggered commit goes first; acknowledge it, process another, then commit manually
                proc_ok()
                p = pending("commit")
                w.committed.append(p.args["payloads"][0].offset)
                w.client.resolve(p, [OffsetCommitResponse(TOPIC, PART, 0)])
                fire_next_timer(w.clock)
                w.client.resolve(pending("fetch"), block(1))
                c.auto_commit_every_n = 0  # so that the next completion does not auto-commit first
                proc_ok()
            else:
                proc_ok()
            w.mc = []
            c.commit().addBoth(w.mc.append)
        elif state == "auto-commit-in-flight":
            w.client.resolve(pending("fetch"), block(1))
            proc_ok()
            if cfg == "ms":
                # timer-triggered auto commit
                while pending("commit") is None and next_timer(w.clock) is not None:
                    fire_next_timer(w.clock)
        elif state == "commit-in-flight-while-processing":
            # two blocks of one message each: the first is processed and its (count- or manually triggered) commit is still in
            # flight while the second is being processed
            w.client.resolve(pending("fetch"), block(2) if cfg == "n1" else block(1))
            proc_ok()
            if cfg != "n1":
                w.mc = []
                c.commit().addBoth(w.mc.append)
                fire_next_timer(w.clock)
                w.client.resolve(pending("fetch"), block(1))
        elif state == "commit-in-backoff":
            w.client.resolve(pending("fetch"), block(1))
            proc_ok()
            if cfg == "ms":
                w.mc = []
                c.commit().addBoth(w.mc.append)
            w.client.fail(pending("commit"), NotCoordinator())
        elif state == "commit-in-backoff-two-waiters":
            # a manual commit failed with a retriable error and waits to be retried; a second commit() call made meanwhile is
            # told that one is in progress and waits on it as well
            w.client.resolve(pending("fetch"), block(1))
            proc_ok()
            w.mc = []
            c.commit().addBoth(w.mc.append)
            w.client.fail(pending("commit"), NotCoordinator())
            w.mc2 = []
            c.commit().addBoth(w.mc2.append)
        elif state == "commit-in-backoff-more-progress":
            # a count-triggered commit failed with a retriable error and is waiting to be retried; meanwhile the next block is
            # fetched and processed, which triggers the count-based auto-commit again
            w.client.resolve(pending("fetch"), block(1))
            proc_ok()
            w.client.fail(pending("commit"), NotCoordinator())
            for _ in range(3):
                if pending("fetch") is not None:
                    break
                fire_next_timer(w.clock)
            if pending("fetch") is not None:
                w.client.resolve(pending("fetch"), block(1))
                if w.pend is not None:
                    proc_ok()
            ctx.check(not w.res, "start-deferred-fires-once-with-last-processed", "start() Deferred fired while running although nothing unrecoverable happened: %r" % (w.res,))
        ctx.log("prefix-done", state, len(w.client.pending), w.pend is not None)

        # ------------------------------------------------------------------ the action
        if not state.startswith("inside-processor"):
            do_action()

        # ------------------------------------------------------------------ symbolic suffix
        def reply(p):
            if p.kind == "fetch":
                k = ctx.choose("fetch_outcome", 2)
                ctx.log("fetch-reply", k)
                if k == 0:
                    w.client.resolve(p, block(1))
                else:
                    # with an attempt limit in force (configured, or the one shutdown() imposes) a failed fetch can be the last
                    # permitted attempt, which is an unrecoverable error by configuration
                    w.unrecoverable = True
                    w.client.fail(p, NotLeaderForPartitionError())
            elif p.kind == "commit":
                k = ctx.choose("commit_outcome", 4)
                ctx.log("commit-reply", k)
                [req] = p.args["payloads"]
                if k == 0:
                    w.committed.append(req.offset)
                    w.client.resolve(p, [OffsetCommitResponse(TOPIC, PART, 0)])
                elif k == 1:
                    w.unrecoverable = True  # retriable, but shutdown() limits the number of attempts
                    w.client.fail(p, FailedPayloadsError([], [(req, Failure(RequestTimedOutError("x")))]))
                elif k == 2:
                    w.unrecoverable = True
                    w.client.fail(p, IllegalGeneration())
                else:
                    w.unrecoverable = True
                    w.client.fail(p, ValueError("not kafka"))
            elif p.kind == "offset":
                ctx.log("offset-reply")
                w.client.resolve(p, [OffsetResponse(TOPIC, PART, 0, (offs[0],))])
            else:
                ctx.check(False, "unexpected-request-kind", p.kind)

        def after_event():
            if w.stopped_at is None and w.consumer._start_d is None:
                mark_stopped()  # stop happened inside shutdown processing
            if w.stopped_at is not None:
                pc, hl = w.stopped_at
                ctx.check(w.proc_calls == pc, "no-processor-call-after-stop", "processor invoked after stop() returned")
                ctx.check(
                    len(w.client.history) == hl and not w.client.pending,
                    "no-client-request-after-stop",
                    "requests after stop: %r pending=%r" % ([p.kind for p in w.client.history[hl:]], [p.kind for p in w.client.pending]),
                )
                ctx.check(
                    next_timer(w.clock) is None,
                    "no-timer-after-stop",
                    "delayed calls remain after stop: %r" % (w.clock.getDelayedCalls(),),
                )
                ctx.check(
                    len(w.res) == 1,
                    "start-deferred-fires-once-with-last-processed",
                    "start() Deferred fired %d times after stop" % len(w.res),
                )
                ctx.check(all(d_.called for d_ in w.proc_ds), "no-processor-result-left-pending-after-stop",
                          "%d Deferred(s) returned by the processor are neither fired nor cancelled after stop()" % len([d_ for d_ in w.proc_ds if not d_.called]))
                mc = getattr(w, "mc", None)
                if mc is not None:
                    ctx.check(len(mc) == 1, "no-commit-activity-after-stop", "a commit() Deferred obtained before stop() fired %d times once the consumer had stopped" % len(mc))

        after_event()
        for ev in range(K):
            acts = []
            if w.client.pending:
                acts.append(0)
            if w.pend is not None:
                acts += [1, 2]
            if next_timer(w.clock) is not None:
                acts.append(3)
            if action == "shutdown" and w.stopped_at is None and w.consumer._start_d is not None and not w.explicit_stop:
                acts.append(4)  # the application loses patience and calls stop() while the graceful shutdown is under way
            if not acts:
                break
            a = ctx.choose("ev", 5, enabled=acts)
            try:
                if a == 0:
                    ps = w.client.pending
                    reply(ps[ctx.choose("which", len(ps))] if len(ps) > 1 else ps[0])
                elif a == 1:
                    ctx.log("proc-ok")
                    proc_ok()
                elif a == 2:
                    ctx.log("proc-fail")
                    d, w.pend = w.pend, None
                    kind = ctx.choose("proc_error_kind", 2)
                    from twisted.internet.defer import CancelledError as TCE_

                    w.proc_cancelled = kind == 1
                    w.unrecoverable = True
                    d.errback(RuntimeError("processor failed") if kind == 0 else TCE_())
                elif a == 3:
                    ctx.log("timer", fire_next_timer(w.clock))
                else:
                    ctx.log("stop()-during-shutdown")
                    w.explicit_stop = True
                    w.consumer.stop()
                    mark_stopped()
            except Exception as e:  # noqa
                ctx.check(False, "no-exception-from-completion", repr(e))
                return
            after_event()
        # ------------------------------------------------------------------ drain with benign outcomes
        for _ in range(24):
            try:
                if w.pend is not None:
                    proc_ok()
                elif w.client.pending:
                    p = w.client.pending[0]
                    if p.kind == "fetch":
                        w.client.resolve(p, [FetchResponse(TOPIC, PART, 0, 0, iter(()))])
                    elif p.kind == "commit":
                        w.committed.append(p.args["payloads"][0].offset)
                        w.client.resolve(p, [OffsetCommitResponse(TOPIC, PART, 0)])
                    else:
                        w.client.resolve(p, [OffsetResponse(TOPIC, PART, 0, (offs[0],))])
                elif next_timer(w.clock) is not None and w.stopped_at is None and w.sd is not None:
                    fire_next_timer(w.clock)
                else:
                    break
            except Exception as e:  # noqa
                ctx.check(False, "no-exception-from-completion", repr(e))
                return
            after_event()
            if w.stopped_at is not None:
                break
        # ------------------------------------------------------------------ verdicts
        if action == "shutdown" and w.sd is not None:
            ctx.check(len(w.sd) == 1, "shutdown-deferred-fires-once", "shutdown() Deferred fired %d times; consumer state %r" % (len(w.sd), c._state))
            if len(w.sd) == 1:
                ctx.check(w.stopped_at is not None or c._start_d is None, "shutdown-ends-stopped")
                lc_, lp_ = w.sd_at[0]
                if not isinstance(w.sd[0], Failure) and cfg != "nogroup" and not w.explicit_stop:
                    ctx.check(
                        _same(w.sd[0], lp_),
                        "shutdown-result-is-last-processed",
                        "shutdown() fired with %r, last_processed_offset was %r" % (w.sd[0], lp_),
                    )
                    if lp_ is not None:
                        ctx.check(
                            _same(lc_, lp_),
                            "graceful-shutdown-commits-everything",
                            "shutdown succeeded with committed=%r processed=%r" % (lc_, lp_),
                        )
        if c._start_d is None:
            ctx.check(len(w.res) == 1, "start-deferred-fires-once-with-last-processed", "start() fired %d times" % len(w.res))
            if len(w.res) == 1 and not isinstance(w.res[0], Failure):
                ctx.check(
                    _same(w.res[0], w.lp_at_res),
                    "start-deferred-fires-once-with-last-processed",
                    "start() result %r, last_processed_offset %r" % (w.res[0], w.lp_at_res),
                )
            elif len(w.res) == 1:
                ctx.check(getattr(w, "unrecoverable", False), "start-deferred-fires-once-with-last-processed",
                          "start() Deferred failed with %r although nothing unrecoverable was injected" % (w.res[0].value,))
                # a failure is legitimate only for an unrecoverable error that happened (processor failure,
                # failed commit); never for the cancellations stop() itself causes
                from twisted.internet.defer import CancelledError as TCE

                ctx.check(
                    w.res[0].check(TCE) is None or getattr(w, "proc_cancelled", False),
                    "start-deferred-fires-once-with-last-processed",
                    "start() Deferred failed with the consumer's own cancellation: %r" % (w.res[0],),
                )
            # ---- restart
            got = []
            w.consumer.processor = lambda cons, b: got.extend(b)
            try:
                pc = len(w.client.history)
                r2 = []
                c.start(offs[0]).addBoth(r2.append)
                p = pending("fetch")
                ok = p is not None
                if ok:
                    w.client.resolve(p, [FetchResponse(TOPIC, PART, 0, 0, iter([OffsetAndMessage(offs[0], msgs[0])]))])
                ctx.check(
                    ok and len(got) == 1 and got[0].message is msgs[0] and not r2,
                    "restart-after-stop-delivers",
                    "restart: fetch issued=%r delivered=%r start result=%r" % (ok, got, r2),
                )
                if cfg == "ms" and ok and len(got) == 1:
                    # the restarted consumer can commit what it processed (nothing of the previous run lingers)
                    cm = []
                    c.commit().addBoth(cm.append)
                    pc_ = pending("commit")
                    # (nothing to send when that offset is already the committed one: commit() then succeeds at once)
                    ctx.check(pc_ is not None or (len(cm) == 1 and not isinstance(cm[0], Failure)), "restart-after-stop-delivers", "restarted consumer: commit() neither sent a request nor succeeded (%r)" % (cm,))
                    if pc_ is not None:
                        w.client.resolve(pc_, [OffsetCommitResponse(TOPIC, PART, 0)])
                        ctx.check(len(cm) == 1 and not isinstance(cm[0], Failure), "restart-after-stop-delivers", "restarted consumer: commit() result %r" % (cm,))
                c.stop()
            except Exception as e:  # noqa
                ctx.check(False, "restart-after-stop-delivers", "restart raised %r" % (e,))
        ctx.log("end", len(w.res), None if w.sd is None else [type(x.value).__name__ if isinstance(x, Failure) else x for x in w.sd])

    return run


def _same(a, b):
    if a is None or b is None:
        return a is None and b is None
    return a == b
