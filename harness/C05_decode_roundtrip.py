"""C05 -- Responses and message sets decode to exactly what was encoded.

Engine A (CrossHair + plugin).  Direction 1: reference *encoder* -> real afkak decoder, all
integer fields symbolic over their wire range, shapes (counts, null/empty) enumerated.
Direction 2: afkak's own message-set encoder -> decoder is the identity on messages; inner
offsets of compressed wrappers follow the protocol's rule for the message format."""
import time

import afkak._util
import afkak.kafkacodec
from afkak import kafkacodec as kc
from afkak.common import CODEC_GZIP, Message
from afkak.kafkacodec import KafkaCodec

from vlib import report
from vlib.ref import kafka_ref as ref

ID = "C05"
ENGINE = "m"

I16 = (-(2**15), 2**15 - 1)
I32 = (-(2**31), 2**31 - 1)
I64 = (-(2**63), 2**63 - 1)

_REAL_GZ = (kc.gzip_encode, kc.gzip_decode)
_GZ_TAG = b"\x1f\x8b"


def _gz_enc(b):
    return _GZ_TAG + b


def _gz_dec(b):
    if b[:2] != _GZ_TAG:
        raise OSError("not gzip (stub)")
    return b[2:]


def setup_symbolic():
    from vlib.chplug import plugin

    afkak.kafkacodec.range = plugin.sym_range
    afkak._util.range = plugin.sym_range
    kc.gzip_encode, kc.gzip_decode = _gz_enc, _gz_dec


def setup_concrete():
    for m in (afkak.kafkacodec, afkak._util):
        if "range" in m.__dict__:
            del m.__dict__["range"]
    kc.gzip_encode, kc.gzip_decode = _REAL_GZ


def gz_encode(b):
    return kc.gzip_encode(b)


# ----------------------------------------------------------------------------------- helpers


def _s(g, kind, name="s"):
    """a STRING field: kind in {'e' empty, 'c' concrete ascii, 's2' 2 symbolic ascii bytes}"""
    if kind == "e":
        return b""
    if kind == "c":
        return b"topic.1"
    b = g.bytes(2, name)
    g.assume(b[0] < 128)
    g.assume(b[1] < 128)
    return b


def _bytes(g, kind, name="y"):
    if kind == "n":
        return None
    if kind == "e":
        return b""
    return g.bytes(int(kind), name)


def _eq_text(got, exp_bytes):
    return got == exp_bytes.decode("ascii") if not hasattr(exp_bytes, "_ch_codepoints") else got.encode("ascii") == exp_bytes


# ----------------------------------------------------------------------------------- direction 1


def b_produce(g, version, shape, name_kind="c"):
    corr = g.int(*I32)
    topics, exp = [], []
    for ti, np_ in enumerate(shape):
        name = b"t%d" % ti if name_kind == "c" else _s(g, name_kind)
        parts = []
        for _ in range(np_):
            p, e, o, lat = g.int(*I32), g.int(*I16), g.int(*I64), g.int(*I64)
            parts.append((p, e, o, lat))
            exp.append((name, p, e, o))
        topics.append((name, parts))
    thr = g.int(*I32)
    data = ref.resp_produce(corr, version, topics, thr)
    got = list(KafkaCodec.decode_produce_response(data, version))
    if len(got) != len(exp):
        return "count %d != %d" % (len(got), len(exp))
    for r, (name, p, e, o) in zip(got, exp):
        if r.topic.encode("ascii") != name:
            return "topic"
        if r.partition != p or r.error != e or r.offset != o:
            return "partition/error/offset"
    return ""


def _mk_msgset(g, spec):
    """spec: list of (magic, keykind, valkind) -> (bytes, [(offset, magic, attrs, ts, key, value)])"""
    entries, exp = [], []
    for (magic, kk, vk) in spec:
        off = g.int(*I64)
        attrs = g.int(0, 31) * 4  # non-codec attribute bits; codec bits 0
        ts = g.int(*I64) if magic == 1 else None
        key, val = _bytes(g, kk, "k"), _bytes(g, vk, "v")
        entries.append((off, ref.encode_message(magic, attrs, key, val, ts)))
        exp.append((off, magic, attrs, ts, key, val))
    return ref.encode_message_set(entries), exp


def _cmp_msgs(got, exp):
    if len(got) != len(exp):
        return "message count %d != %d" % (len(got), len(exp))
    for om, (off, magic, attrs, ts, key, val) in zip(got, exp):
        if om.offset != off:
            return "offset"
        m = om.message
        if m.magic != magic or m.attributes != attrs:
            return "magic/attributes"
        if (m.key is None) != (key is None) or (m.value is None) != (val is None):
            return "null-vs-empty"
        if key is not None and m.key != key:
            return "key"
        if val is not None and m.value != val:
            return "value"
        if magic == 1:
            if isinstance(m.timestamp, tuple) or m.timestamp != ts:
                return "timestamp (got %s)" % type(m.timestamp).__name__
    return ""


def b_fetch(g, version, msgspecs):
    """one topic, len(msgspecs) partitions each with a message set"""
    corr, thr = g.int(*I32), g.int(*I32)
    parts, exp = [], []
    for spec in msgspecs:
        p, e, hw = g.int(*I32), g.int(*I16), g.int(*I64)
        ms, mexp = _mk_msgset(g, spec)
        parts.append((p, e, hw, ms))
        exp.append((p, e, hw, mexp))
    data = ref.resp_fetch(corr, version, [(b"tp", parts)] if parts else [], thr)
    got = list(KafkaCodec.decode_fetch_response(data, version))
    if len(got) != len(exp):
        return "count"
    for r, (p, e, hw, mexp) in zip(got, exp):
        if r.topic != "tp" or r.partition != p or r.error != e or r.highwaterMark != hw:
            return "partition header"
        c = _cmp_msgs(list(r.messages), mexp)
        if c:
            return c
    return ""


def b_offsets(g, shape):
    """shape: list (per partition) of number of offsets"""
    corr = g.int(*I32)
    parts, exp = [], []
    for n in shape:
        p, e = g.int(*I32), g.int(*I16)
        offs = [g.int(*I64) for _ in range(n)]
        parts.append((p, e, offs))
        exp.append((p, e, offs))
    data = ref.resp_list_offsets(corr, [(b"t", parts)] if parts else [])
    got = list(KafkaCodec.decode_offset_response(data))
    if len(got) != len(exp):
        return "count"
    for r, (p, e, offs) in zip(got, exp):
        if r.topic != "t" or r.partition != p or r.error != e:
            return "header"
        if len(r.offsets) != len(offs):
            return "offset count"
        for a, b in zip(r.offsets, offs):
            if a != b:
                return "offset value"
    return ""


def b_metadata(g, nbrokers, tshape, host_kind="c"):
    """tshape: list per topic of list per partition of (nreplicas, nisr)"""
    corr = g.int(*I32)
    brokers = []
    for i in range(nbrokers):
        # node ids are dict keys in the decoder -> finite pool (incl. the int32 extremes), not symbolic
        nid = (2**31 - 1, -(2**31), 0)[i % 3] if nbrokers != 2 else 100 + i
        brokers.append((nid, b"host%d" % i if host_kind == "c" else _s(g, host_kind), g.int(*I32)))
    topics = []
    for ti, pshape in enumerate(tshape):
        parts = []
        for pi, (nr, ni) in enumerate(pshape):
            parts.append((g.int(*I16), pi * 7, g.int(*I32), [g.int(*I32) for _ in range(nr)], [g.int(*I32) for _ in range(ni)]))
        topics.append((g.int(*I16), b"tt%d" % ti, parts))
    data = ref.resp_metadata(corr, brokers, topics)
    gb, gt = KafkaCodec.decode_metadata_response(data)
    if len(gb) != len(brokers) or len(gt) != len(topics):
        return "counts"
    for (n, h, p) in brokers:
        bm = gb.get(n)
        if bm is None or bm.node_id != n or bm.port != p or bm.host.encode("ascii") != h:
            return "broker"
    for (terr, name, parts) in topics:
        tm = gt.get(name.decode())
        if tm is None or tm.topic != name.decode() or tm.topic_error_code != terr:
            return "topic"
        if len(tm.partition_metadata) != len(parts):
            return "partition count"
        for (perr, pid, leader, reps, isr) in parts:
            pm = tm.partition_metadata.get(pid)
            if pm is None or pm.partition != pid or pm.partition_error_code != perr or pm.leader != leader:
                return "partition"
            if len(pm.replicas) != len(reps) or len(pm.isr) != len(isr):
                return "replica counts"
            for a, b in zip(pm.replicas, reps):
                if a != b:
                    return "replica"
            for a, b in zip(pm.isr, isr):
                if a != b:
                    return "isr"
    return ""


def b_find_coordinator(g, host_kind):
    corr, e, n, port = g.int(*I32), g.int(*I16), g.int(*I32), g.int(*I32)
    host = _s(g, host_kind)
    r = KafkaCodec.decode_consumermetadata_response(ref.resp_find_coordinator(corr, e, n, host, port))
    if r.error != e or r.node_id != n or r.port != port or r.host.encode("ascii") != host:
        return "mismatch"
    return ""


def b_offset_commit(g, shape):
    corr = g.int(*I32)
    topics, exp = [], []
    for ti, np_ in enumerate(shape):
        parts = [(g.int(*I32), g.int(*I16)) for _ in range(np_)]
        topics.append((b"c%d" % ti, parts))
        exp += [("c%d" % ti, p, e) for (p, e) in parts]
    got = list(KafkaCodec.decode_offset_commit_response(ref.resp_offset_commit(corr, topics)))
    if len(got) != len(exp):
        return "count"
    for r, (t, p, e) in zip(got, exp):
        if r.topic != t or r.partition != p or r.error != e:
            return "mismatch"
    return ""


def b_offset_fetch(g, metakinds):
    corr = g.int(*I32)
    parts = [(g.int(*I32), g.int(*I64), _bytes(g, mk, "m"), g.int(*I16)) for mk in metakinds]
    got = list(KafkaCodec.decode_offset_fetch_response(ref.resp_offset_fetch(corr, [(b"of", parts)] if parts else [])))
    if len(got) != len(parts):
        return "count"
    for r, (p, o, m, e) in zip(got, parts):
        if r.topic != "of" or r.partition != p or r.offset != o or r.error != e:
            return "ints"
        if (r.metadata is None) != (m is None):
            return "null-vs-empty metadata"
        if m is not None and r.metadata != m:
            return "metadata"
    return ""


def b_join_group(g, nmembers, idkind, datakind):
    corr, e, gen = g.int(*I32), g.int(*I16), g.int(*I32)
    proto, leader, member = _s(g, "c"), _s(g, idkind, "l"), _s(g, idkind, "m")
    members = [(_s(g, idkind, "mm"), _bytes(g, datakind, "d")) for _ in range(nmembers)]
    r = KafkaCodec.decode_join_group_response(ref.resp_join_group(corr, e, gen, proto, leader, member, members))
    if r.error != e or r.generation_id != gen:
        return "ints"
    if r.group_protocol.encode() != proto or r.leader_id.encode() != leader or r.member_id.encode() != member:
        return "strings"
    if len(r.members) != nmembers:
        return "member count"
    for gm, (mid, md) in zip(r.members, members):
        if gm.member_id.encode() != mid:
            return "member id"
        if md is None:
            if gm.member_metadata is not None:
                return "null metadata"
        elif gm.member_metadata != md:
            return "member metadata"
    return ""


def b_sync_group(g, kind):
    corr, e = g.int(*I32), g.int(*I16)
    a = _bytes(g, kind, "a")
    r = KafkaCodec.decode_sync_group_response(ref.resp_sync_group(corr, e, a))
    if r.error != e:
        return "error"
    if (r.member_assignment is None) != (a is None) or (a is not None and r.member_assignment != a):
        return "assignment"
    return ""


def b_heartbeat(g, which):
    corr, e = g.int(*I32), g.int(*I16)
    data = ref.resp_heartbeat(corr, e)
    r = KafkaCodec.decode_heartbeat_response(data) if which == "hb" else KafkaCodec.decode_leave_group_response(data)
    return "" if r.error == e else "error"


def b_api_versions(g, n):
    corr, e = g.int(*I32), g.int(*I16)
    vs = [(g.int(*I16), g.int(*I16), g.int(*I16)) for _ in range(n)]
    r = KafkaCodec.decode_api_versions_response(ref.resp_api_versions(corr, e, vs))
    if r.error_code != e:
        return "error code"
    if len(r.api_versions) != n:
        return "count"
    for a, (k, lo, hi) in zip(r.api_versions, vs):
        if a.api_key != k or a.min_version != lo or a.max_version != hi:
            return "entry"
    return ""


def b_corr_id(g):
    corr = g.int(*I32)
    tail = g.bytes(3)
    import struct

    return "" if KafkaCodec.get_response_correlation_id(struct.pack(">i", corr) + tail) == corr else "corr"


def b_protocol_metadata(g, ntopics, ukind):
    ver = g.int(*I16)
    topics = [b"s%d" % i for i in range(ntopics)]
    u = _bytes(g, ukind, "u")
    r = KafkaCodec.decode_join_group_protocol_metadata(ref.enc_consumer_protocol_metadata(ver, topics, u))
    if r.version != ver or list(r.subscriptions) != [t.decode() for t in topics]:
        return "fields"
    if (r.user_data is None) != (u is None) or (u is not None and r.user_data != u):
        return "user data"
    return ""


def b_assignment(g, shape, ukind):
    """shape: partitions per topic"""
    topics = [(b"a%d" % i, [g.int(*I32) for _ in range(n)]) for i, n in enumerate(shape)]
    u = _bytes(g, ukind, "u")
    r = KafkaCodec.decode_sync_group_member_assignment(ref.enc_consumer_assignment(0, topics, u))
    if r.version != 0 or len(r.assignments) != len(topics):
        return "fields"
    for name, ps in topics:
        got = r.assignments.get(name.decode())
        if got is None or len(got) != len(ps):
            return "partitions"
        for a, b in zip(got, ps):
            if a != b:
                return "partition id"
    if (r.user_data is None) != (u is None) or (u is not None and r.user_data != u):
        return "user data"
    return ""


# ----------------------------------------------------------------------------------- direction 2


def _mk_messages(g, spec):
    out = []
    for (magic, kk, vk) in spec:
        attrs = g.int(0, 31) * 4
        key, val = _bytes(g, kk, "k"), _bytes(g, vk, "v")
        if magic == 1:
            out.append(Message(1, attrs, key, val, g.int(*I64)))
        else:
            out.append(Message(0, attrs, key, val))
    return out


def _same_msg(a, b):
    if a.magic != b.magic or a.attributes != b.attributes:
        return False
    if (a.key is None) != (b.key is None) or (a.value is None) != (b.value is None):
        return False
    if a.key is not None and a.key != b.key:
        return False
    if a.value is not None and a.value != b.value:
        return False
    if a.magic == 1 and (isinstance(a.timestamp, tuple) or a.timestamp != b.timestamp):
        return False
    return True


def b_roundtrip(g, spec):
    """decode(encode(ms)) == ms, offsets base, base+1, ..."""
    msgs = _mk_messages(g, spec)
    base = g.int(-(2**63), 2**63 - 1 - len(spec))
    data = KafkaCodec._encode_message_set(msgs, base)
    got = list(KafkaCodec._decode_message_set_iter(data))
    if len(got) != len(msgs):
        return "count %d" % len(got)
    for i, (om, m) in enumerate(zip(got, msgs)):
        if om.offset != base + i:
            return "offset"
        if not _same_msg(om.message, m):
            return "message %d differs" % i
        if not (om.message == m):
            return "Message.__eq__ says different (message %d)" % i
    return ""


def b_wrapper(g, wmagic, inner_spec, depth, twice=False):
    """A compressed wrapper (gzip stub) whose inner set is symbolic.  Absolute-offset oracle per protocol:
    magic 0: inner offsets are absolute as stored; magic 1: inner offsets are relative (ascending, possibly with gaps left
    by compaction) and abs_i = wrapper_offset - rel_last + rel_i."""
    inner = _mk_messages(g, inner_spec)
    n = len(inner)
    woff = g.int(n, 2**62)
    entries = []
    exp_offs = []
    if wmagic == 0:
        offs = []
        for i in range(n):
            offs.append(g.int(0, 2**62))
        for i in range(n):
            entries.append((offs[i], KafkaCodec._encode_message(inner[i])))
            exp_offs.append(offs[i])
    else:
        # relative offsets 0 <= r_0 < r_1 < ... (dense 0..n-1 from a producer; with gaps and a non-zero first one after log
        # compaction); the wrapper's offset is the absolute offset of the LAST inner message: abs_i = woff - r_last + r_i
        rel = []
        for i in range(n):
            if depth == 2:
                r = 3 * i + 2  # (the doubly wrapped shape keeps concrete, non-dense relative offsets: cost)
            else:
                r = g.int(0, 2**20, "rel")
                if rel:
                    g.assume(r > rel[-1])
            rel.append(r)
        g.assume(woff >= rel[-1])
        for i in range(n):
            entries.append((rel[i], KafkaCodec._encode_message(inner[i])))
            exp_offs.append(woff - rel[-1] + rel[i])
    payload = gz_encode(ref.encode_message_set(entries))
    if depth == 2:
        # wrap once more: the outer wrapper carries a set holding the inner wrapper
        w1 = Message(wmagic, CODEC_GZIP, None, payload) if wmagic == 0 else Message(1, CODEC_GZIP, None, payload, g.int(*I64))
        e1 = [(woff if wmagic == 0 else 0, KafkaCodec._encode_message(w1))]
        payload = gz_encode(ref.encode_message_set(e1))
    w = Message(wmagic, CODEC_GZIP, None, payload) if wmagic == 0 else Message(1, CODEC_GZIP, None, payload, g.int(*I64))
    wbytes = KafkaCodec._encode_message(w)
    if twice:
        # the byte-identical wrapper a second time, further on in the log (what a produce retry after a lost acknowledgement leaves
        # behind): its inner messages are reported relative to *its* offset
        woff2 = woff + g.int(1, 2**20, "dup_distance")
        data = ref.encode_message_set([(woff, wbytes), (woff2, wbytes)])
        got = list(KafkaCodec._decode_message_set_iter(data))
        if len(got) != 2 * n:
            return "count %d" % len(got)
        for i, om in enumerate(got[n:]):
            want = exp_offs[i] if wmagic == 0 else exp_offs[i] + (woff2 - woff)
            if not _same_msg(om.message, inner[i]):
                return "inner message %d of the repeated wrapper differs" % i
            if om.offset != want:
                return "absolute offset of inner message %d of the repeated wrapper (magic %d)" % (i, wmagic)
        got = got[:n]
    else:
        data = ref.encode_message_set([(woff, wbytes)])
        got = list(KafkaCodec._decode_message_set_iter(data))
    if len(got) != n:
        return "count %d" % len(got)
    for i, om in enumerate(got):
        if not _same_msg(om.message, inner[i]):
            return "inner message %d differs" % i
        if om.offset != exp_offs[i]:
            return "absolute offset of inner message %d (magic %d wrapper)" % (i, wmagic)
    return ""


# ----------------------------------------------------------------------------------- obligations

MSPECS_Q = [[], [(0, "n", "1")], [(1, "1", "n")], [(0, "e", "2"), (1, "n", "e")], [(1, "2", "1"), (1, "e", "e")]]
MSPECS_T = MSPECS_Q + [[(0, "3", "3"), (0, "n", "n"), (1, "1", "2")], [(1, "3", "e"), (0, "e", "3"), (1, "n", "1")]]


def obligations(tier):
    q = tier == "quick"
    M = "harness.C05_decode_roundtrip"
    obs = []

    def add(name, fn, timeout=60, **kw):
        obs.append({"name": name, "module": M, "fn": fn, "kwargs": kw, "timeout": timeout * 5 if q else timeout * 12})

    pshapes = [[], [0], [1], [2], [1, 1], [0, 2]] + ([] if q else [[2, 2], [3], [1, 0, 1]])
    for v in (0, 2):
        for sh in pshapes:
            add("produce_v%d %r" % (v, sh), "b_produce", version=v, shape=sh)
        add("produce_v%d symbolic-name" % v, "b_produce", version=v, shape=[1], name_kind="s2")
    for v in (0, 2):
        for spec in MSPECS_Q if q else MSPECS_T:
            add("fetch_v%d msgs=%r" % (v, spec), "b_fetch", timeout=90, version=v, msgspecs=[spec])
        add("fetch_v%d no-partitions" % v, "b_fetch", version=v, msgspecs=[])
        add("fetch_v%d two-partitions" % v, "b_fetch", timeout=90, version=v, msgspecs=[[(0, "1", "1")], [(1, "n", "e")]])
    for sh in [[], [0], [1], [2], [1, 2]] + ([] if q else [[3], [2, 2, 1]]):
        add("list_offsets %r" % sh, "b_offsets", shape=sh)
    mshapes = [(0, []), (1, [[]]), (1, [[(0, 0)]]), (2, [[(1, 1)], [(2, 0)]]), (1, [[(2, 2), (0, 1)]])]
    if not q:
        mshapes += [(3, [[(3, 2)], [], [(1, 1), (1, 1)]]), (2, [[(0, 0), (1, 0), (0, 1)]])]
    for nb, ts in mshapes:
        add("metadata brokers=%d topics=%r" % (nb, ts), "b_metadata", timeout=90, nbrokers=nb, tshape=ts)
    add("metadata symbolic-host", "b_metadata", nbrokers=1, tshape=[], host_kind="s2")
    add("metadata empty-host", "b_metadata", nbrokers=1, tshape=[], host_kind="e")
    for hk in ("c", "e", "s2"):
        add("find_coordinator host=%s" % hk, "b_find_coordinator", host_kind=hk)
    for sh in [[], [0], [1], [2], [1, 1]] + ([] if q else [[3], [2, 2]]):
        add("offset_commit %r" % sh, "b_offset_commit", shape=sh)
    for mk in [[], ["n"], ["e"], ["2"], ["n", "1"]] + ([] if q else [["3", "e", "n"]]):
        add("offset_fetch meta=%r" % mk, "b_offset_fetch", metakinds=mk)
    for nm, ik, dk in [(0, "c", "e"), (1, "c", "2"), (2, "s2", "e"), (1, "e", "1")] + ([] if q else [(3, "c", "3"), (2, "s2", "2")]):
        add("join_group members=%d id=%s data=%s" % (nm, ik, dk), "b_join_group", timeout=90, nmembers=nm, idkind=ik, datakind=dk)
    for k in ("e", "1", "3") + (() if q else ("6",)):
        add("sync_group assignment=%s" % k, "b_sync_group", kind=k)
    add("heartbeat", "b_heartbeat", which="hb")
    add("leave_group", "b_heartbeat", which="lg")
    for n in (0, 1, 2, 3) if q else (0, 1, 2, 3, 5):
        add("api_versions n=%d" % n, "b_api_versions", n=n)
    add("response correlation id", "b_corr_id")
    for nt, uk in [(0, "e"), (1, "n"), (2, "2")]:
        add("protocol_metadata topics=%d user=%s" % (nt, uk), "b_protocol_metadata", ntopics=nt, ukind=uk)
    for sh, uk in [([], "e"), ([0], "n"), ([2], "e"), ([1, 2], "1")] + ([] if q else [([3, 3], "2")]):
        add("member_assignment %r user=%s" % (sh, uk), "b_assignment", shape=sh, ukind=uk)
    # direction 2
    for spec in MSPECS_Q if q else MSPECS_T:
        add("roundtrip %r" % spec, "b_roundtrip", timeout=90, spec=spec)
    wspecs = [[(0, "n", "1")], [(1, "1", "n"), (0, "e", "e")]] + ([] if q else [[(1, "2", "2"), (1, "n", "1"), (0, "1", "e")]])
    for wm in (0, 1):
        for spec in wspecs:
            # a magic-1 wrapper holds magic-1 messages, a magic-0 wrapper magic-0 messages
            sp = [(wm, kk, vk) for (_m, kk, vk) in spec]
            add("wrapper magic=%d inner=%r" % (wm, sp), "b_wrapper", timeout=90, wmagic=wm, inner_spec=sp, depth=1)
        add("wrapper magic=%d depth=2" % wm, "b_wrapper", timeout=120, wmagic=wm, inner_spec=[(wm, "1", "1")], depth=2)
        add("wrapper magic=%d repeated" % wm, "b_wrapper", timeout=120, wmagic=wm, inner_spec=[(wm, "1", "n"), (wm, "e", "1")], depth=1, twice=True)
    return obs


def functions():
    K = KafkaCodec
    return [
        K._decode_message_set_iter, K._decode_message, K._encode_message_set, K._encode_message,
        K.decode_produce_response, K.decode_fetch_response, K.decode_offset_response, K.decode_metadata_response,
        K.decode_consumermetadata_response, K.decode_offset_commit_response, K.decode_offset_fetch_response,
        K.decode_join_group_response, K.decode_sync_group_response, K.decode_heartbeat_response,
        K.decode_leave_group_response, K.decode_api_versions_response, K.get_response_correlation_id,
        K.decode_join_group_protocol_metadata, K.decode_sync_group_member_assignment,
        afkak._util.read_short_bytes, afkak._util.read_int_string, afkak._util.relative_unpack,
        afkak._util.read_short_ascii, afkak._util.read_short_text,
    ]


def main(tier):
    from vlib.chplug import enginea

    return enginea.main(__name__, tier)


def replay(path):
    from vlib.chplug import enginea

    return enginea.replay_file(__name__, path)


ASSUMPTIONS = [
    "struct.pack/unpack modelled as fresh byte variables + one linear equality per integer (validated: every counterexample is replayed with the real struct)",
    "zlib.crc32 replaced by an abstract linear position-sensitive checksum used identically by afkak and the reference codec; real CRC-32 in replays",
    "gzip replaced by a tagged identity (stdlib gzip round-trips: checked concretely in replays); snappy absent from the image",
    "reference encoder vlib/ref/kafka_ref.py written from the protocol guide; topic/host names concrete ASCII or 2 symbolic ASCII bytes",
]

BOUNDS = {
    "quick": "0..2 topics/partitions/members/brokers/replicas, message sets of 0..2 messages with null/empty/1..2-byte keys and values, "
    "all integer fields symbolic over their full wire range, wrappers to depth 2",
    "thorough": "0..3 of each, message sets of 0..3 messages with up to 3-byte keys/values, longer per-obligation budgets",
    "outside": "snappy/xerial; ill-formed input (C12); strings beyond 2 symbolic bytes; counts above 3",
}
