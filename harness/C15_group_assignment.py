"""C15 -- Group assignment gives every partition to exactly one subscribed member.

Engine A (CrossHair).  Real: _ConsumerProtocol.generate_assignments / _round_robin_assignment /
decode_assignment / join_group_protocols and the subscription / assignment codecs.  The
subscription matrix is symbolic booleans, partition ids are symbolic distinct int32 values."""
import itertools

import afkak._util
import afkak.kafkacodec
from afkak._group import _ConsumerProtocol
from afkak.common import _JoinGroupResponseMember
from afkak.kafkacodec import KafkaCodec

ID = "C15"
ENGINE = "m"

I32 = (-(2**31), 2**31 - 1)
MEMBERS = ["m-a", "m-b", "m-c", "m-d"]
TOPICS = ["t", "u", "v"]


def setup_symbolic():
    from vlib.chplug import plugin

    afkak.kafkacodec.range = plugin.sym_range
    afkak._util.range = plugin.sym_range


def setup_concrete():
    for m in (afkak.kafkacodec, afkak._util):
        m.__dict__.pop("range", None)


def _assign(proto, order, subs, tp):
    members = [_JoinGroupResponseMember(m, proto.join_group_protocols(subs[m])[0].protocol_metadata) for m in order]
    enc = proto.generate_assignments(members, tp)
    if [e.member_id for e in enc] != list(order):
        return None, "one encoded assignment per listed member, in order"
    dec = {}
    for e in enc:
        d = proto.decode_assignment(e.member_metadata)
        dec[e.member_id] = {t: tuple(ps) for t, ps in d.items()}
    return dec, ""


def b_assign(g, nmembers, ntopics, counts, perm, identical=False):
    ids = MEMBERS[:nmembers]
    topics = TOPICS[:ntopics]
    # subscription matrix
    sub = {}
    for m in ids:
        row = {}
        for t in topics:
            row[t] = True if identical else g.bool("sub")
        sub[m] = row
        if not any(row[t] for t in topics):  # every member subscribes to at least one topic
            g.assume(False)
            return ""
    subs = {m: [t for t in topics if sub[m][t]] for m in ids}
    # partition map: symbolic distinct ids (non-contiguous, any int32)
    tp = {}
    for t, n in zip(topics, counts):
        ps = []
        for i in range(n):
            p = g.int(*I32, name="p")
            if ps:
                g.assume(p > ps[-1])
            ps.append(p)
        tp[t] = ps
    proto = _ConsumerProtocol()
    dec, lbl = _assign(proto, ids, subs, tp)
    if dec is None:
        return lbl
    subscribed = [t for t in topics if any(sub[m][t] for m in ids)]
    for t in topics:
        for p in tp[t]:
            owners = 0
            for m in ids:
                got = dec[m].get(t, ())
                hit = False
                for q in got:
                    if q == p:
                        hit = True
                if hit:
                    if not sub[m][t]:
                        return "partition given to a member not subscribed to its topic"
                    owners += 1
            if t in subscribed and owners != 1:
                return "partition of a subscribed topic assigned to %d members" % owners
            if t not in subscribed and owners != 0:
                return "partition of an unsubscribed topic assigned"
    # nothing but known partitions
    for m in ids:
        for t, got in dec[m].items():
            if t not in tp or len(got) > len(tp[t]):
                return "assignment names unknown partitions"
    if identical:
        sizes = [sum(len(v) for v in dec[m].values()) for m in ids]
        if max(sizes) - min(sizes) > 1:
            return "identical subscriptions but sizes differ by more than one"
    # independence from the listing order
    order2 = [ids[i] for i in perm]
    dec2, lbl = _assign(proto, order2, subs, tp)
    if dec2 is None:
        return lbl
    for m in ids:
        a, b = dec[m], dec2[m]
        for t in topics:
            x, y = a.get(t, ()), b.get(t, ())
            if len(x) != len(y):
                return "assignment depends on the order in which members are listed"
            for p, q in zip(x, y):
                if p != q:
                    return "assignment depends on the order in which members are listed"
    return ""


def obligations(tier):
    q = tier == "quick"
    M = "harness.C15_group_assignment"
    obs = []

    def add(name, timeout=120, **kw):
        obs.append({"name": name, "module": M, "fn": "b_assign", "kwargs": kw, "timeout": timeout * 5 if q else timeout * 12, "abstract_crc": False})

    if q:
        cfgs = [(1, 2), (2, 2), (3, 2), (2, 3)]
        maxc = 2
    else:
        cfgs = [(1, 2), (2, 2), (3, 2), (2, 3), (3, 3)]
        maxc = 3
    for nm, nt in cfgs:
        perms = [p for p in itertools.permutations(range(nm))]
        use = perms[-1:] if nm < 3 else ([perms[-1], perms[3]] if (q or nt == 3) else perms[1:] if nm == 3 else [perms[-1], perms[9]])
        for counts in itertools.product(range(maxc + 1), repeat=nt):
            if nm == 4 and sum(counts) > 3:
                continue
            if nt == 3 and (sum(counts) > (3 if q else 4) or max(counts) > 2):
                continue
            for pi, perm in enumerate(use):
                if pi > 0 and sum(counts) < 2:
                    continue
                add("members=%d topics=%d partitions=%r perm=%r" % (nm, nt, counts, perm), nmembers=nm, ntopics=nt, counts=list(counts), perm=list(perm))
        idc = {2: [(3, 2), (1, 1), (2, 1), (1, 3)], 3: [(1, 1, 1), (2, 1, 1)]} if q else {2: [(3, 2), (1, 1), (2, 1), (1, 3), (4, 4), (1, 4), (3, 3)], 3: [(1, 1, 1), (2, 1, 1), (2, 2, 1)]}
        for counts in idc.get(nt, []):
            if nm > 1:
                add("identical members=%d partitions=%r" % (nm, counts), nmembers=nm, ntopics=nt, counts=list(counts), perm=list(perms[-1]), identical=True)
    return obs


def functions():
    return [
        _ConsumerProtocol.generate_assignments,
        _ConsumerProtocol._round_robin_assignment,
        _ConsumerProtocol.decode_assignment,
        _ConsumerProtocol.join_group_protocols,
        KafkaCodec.encode_join_group_protocol_metadata,
        KafkaCodec.decode_join_group_protocol_metadata,
        KafkaCodec.encode_sync_group_member_assignment,
        KafkaCodec.decode_sync_group_member_assignment,
    ]


def main(tier):
    from vlib import auxb
    from vlib.chplug import enginea

    extra, cov = auxb.run("harness.aux_c15_leader", tier)
    return enginea.main(__name__, tier, extra_results=extra, extra_cov=cov)


def replay(path):
    import json

    from vlib.chplug import enginea

    v = json.load(open(path))
    if v.get("leader"):
        from vlib import auxb

        return auxb.replay("harness.aux_c15_leader", v)
    return enginea.replay_file(__name__, path)


ASSUMPTIONS = [
    "member ids and topic names from finite pools (they are dict keys / sort keys in the real code); the subscription matrix is symbolic "
    "booleans with every member subscribed to at least one topic; partition ids are symbolic, distinct and supplied in ascending order "
    "(the real code sorts them anyway)",
    "struct modelled as fresh byte variables + one linear equality per integer (replays use the real struct)",
]

BOUNDS = {
    "quick": "1..3 members, 2 topics, 0..2 partitions per topic, listing order vs 1-2 other permutations; identical subscriptions with (3,2) partitions",
    "thorough": "1..3 members, 2..3 topics, 0..3 partitions per topic (with 3 topics: <=2 each, <=4 in total, 2 listing orders; with 4 members: <=3 in total), all permutations for 3 members x 2 topics",
    "outside": ">4 members, >3 topics, topic names needing non-ASCII (write_short_ascii)",
}
