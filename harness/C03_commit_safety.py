"""C03 -- Commits never run ahead of successfully processed messages.

Engine B.  Real Consumer (commit/_auto_commit/_send_commit_request/_handle_commit_error/
_update_*), ContractClient with a symbolic log and a coordinator offset store; a symbolic
crash point after which a fresh consumer restarts from OFFSET_COMMITTED."""
from twisted.internet.defer import CancelledError as TCancelledError
from twisted.internet.defer import Deferred
from twisted.internet.task import Clock
from twisted.python.failure import Failure

from afkak.common import (
    OFFSET_COMMITTED,
    FailedPayloadsError,
    FetchResponse,
    IllegalGeneration,
    Message,
    NotCoordinator,
    OffsetAndMessage,
    OffsetCommitResponse,
    OffsetFetchResponse,
    OffsetResponse,
    OperationInProgress,
    RequestTimedOutError,
)
from afkak.consumer import Consumer

from vlib.sim.contract import ContractClient, fire_next_timer, next_timer
from vlib.symrun import sym_and, sym_or

ID = "C03"
ENGINE = "b"
TOPIC, PART = "t", 1

REQUIRED_LABELS = [
    "commit-value-is-last-processed-at-issue",
    "commit-not-ahead-of-successful-processing",
    "one-commit-outstanding",
    "last-committed-only-acked-or-reported",
    "restart-resumes-after-committed",
]

ASSUMPTIONS = [
    "KafkaClient replaced by ContractClient; the coordinator is an offset store updated when the script acknowledges a commit "
    "(or applies it and loses the reply)",
    "a crash is modelled by abandoning the consumer, its client and its reactor (no callbacks ever fire again) and starting a "
    "fresh Consumer with OFFSET_COMMITTED against the same log and store",
    "the application keeps the consumer running after a processor failure unless the job says stop_on_fail (then it calls "
    "stop() from the errback of the start Deferred)",
    "reactor = twisted Clock stepped to the next due timer; logging disabled",
]


def functions():
    return [
        Consumer.commit,
        Consumer._auto_commit,
        Consumer._send_commit_request,
        Consumer._handle_commit_error,
        Consumer._update_committed_offset,
        Consumer._update_processed_offset,
        Consumer._handle_processor_error,
        Consumer._handle_offset_response,
        Consumer._process_messages,
        Consumer.shutdown,
        Consumer.stop,
    ]


def bounds(tier):
    q = tier == "quick"
    return {
        "log_messages": 3,
        "script_events": 5 if q else 6,
        "auto_commit": [[0, 0], [1, 0], [2, 0], [0, 5000]],
        "processor": ["sync (ok|raise)", "async (ok|fail|pending)"],
        "processor_failures": 1,
        "commit_faults": 1 if q else 2,
        "crash_point": "symbolic: after any event or never",
        "offsets": "o_1 in [0,2^62], gaps in [1,2^40]",
        "outside": "broker-side durability; multi-partition commits; real KafkaClient routing (C07)",
    }


def limits(tier):
    return {"validate": "all" if tier == "quick" else 7, "max_seconds": 900 if tier == "quick" else 3400}


def jobs(tier):
    q = tier == "quick"
    out = []
    for ac in ((0, 0), (1, 0), (2, 0), (0, 5000)):
        for proc in ("sync", "async"):
            for sof in (False, True):
                out.append(
                    {
                        "ac": ac,
                        "proc": proc,
                        "stop_on_fail": sof,
                        "K": 5 if q else 6,
                        "cfaults": 1 if q else 2,
                        "n": 3,
                    }
                )
    out.append({"kind": "bytes", "batches": 2})
    if not q:
        out.append({"kind": "bytes", "batches": 3})
    return out


class World:
    pass


def _bytes_scenario(job):
    """Byte-level variant: what the consumer commits is derived from the offsets its decoder reports.  The log is encoded by
    the reference encoder (plain messages and gzip wrappers of both formats, with the gaps compaction leaves), decoded by the
    real KafkaCodec inside the fetch path, every message is processed, and every commit is compared with the *stored* offset
    of the last message the processor completed (recovered from the message key)."""
    from afkak.codec import gzip_encode
    from afkak.kafkacodec import KafkaCodec

    from vlib.ref import kafka_ref as ref

    def run(ctx):
        clock = Clock()
        client = ContractClient(ctx, clock)
        nb = job["batches"]
        off = 100
        batches = []
        for b in range(nb):
            kind = ctx.choose("batch_kind", 4)  # 0 plain v0, 1 plain v1, 2 gzip wrapper v0, 3 gzip wrapper v1
            size = 1 if kind < 2 else 2 + ctx.choose("wrapper_size", 2)
            msgs = []
            for i in range(size):
                off += 1 + ctx.choose("gap", 2)
                msgs.append((off, b"k%d" % off, b"v%d" % off))
            batches.append((kind, msgs))
        log = [m for (_k, ms) in batches for m in ms]

        def encode(batch):
            kind, msgs = batch
            if kind == 0:
                return ref.encode_message_set([(o, ref.encode_message(0, 0, k, v)) for (o, k, v) in msgs])
            if kind == 1:
                return ref.encode_message_set([(o, ref.encode_message(1, 0, k, v, 1234)) for (o, k, v) in msgs])
            if kind == 2:
                inner = ref.encode_message_set([(o, ref.encode_message(0, 0, k, v)) for (o, k, v) in msgs])
                return ref.encode_message_set([(msgs[-1][0], ref.encode_message(0, 1, None, gzip_encode(inner)))])
            base = msgs[0][0] - ctx.choose("first_relative", 2)
            inner = ref.encode_message_set([(o - base, ref.encode_message(1, 0, k, v, 99)) for (o, k, v) in msgs])
            return ref.encode_message_set([(msgs[-1][0], ref.encode_message(1, 1, None, gzip_encode(inner), 77))])

        done = []  # stored offsets of the messages the processor has completed, in order

        def processor(consumer, block):
            for sm in block:
                done.append(int(sm.message.key[1:]))

        commits = []

        def on_request(kind, p):
            if kind == "commit":
                [req] = p.args["payloads"]
                commits.append(req.offset)
                last = done[-1] if done else None
                ctx.check(last is not None and req.offset <= last, "commit-not-ahead-of-successful-processing",
                          "commit of offset %r while the last message processed is stored at offset %r" % (req.offset, last))
                ctx.check(req.offset == last, "commit-value-is-last-processed-at-issue", "commit of %r, last processed message is stored at %r" % (req.offset, last))

        client.on_request = on_request
        consumer = Consumer(client, TOPIC, PART, processor, consumer_group="g", auto_commit_every_n=1, auto_commit_every_ms=0)
        ctx.sig("bytes batches=%d" % nb)
        res = []
        consumer.start(log[0][0]).addBoth(res.append)
        for step in range(6 * nb + 6):
            if res or not client.pending:
                break
            p = client.pending[0]
            if p.kind == "commit":
                client.resolve(p, [OffsetCommitResponse(TOPIC, PART, 0)])
                continue
            f = p.args["payloads"][0].offset
            idx = 0
            while idx < nb and batches[idx][1][-1][0] < f:
                idx += 1
            if idx >= nb:
                break
            cnt = 1 + ctx.choose("batches_returned", nb - idx)
            data = b"".join(encode(b) for b in batches[idx : idx + cnt])
            wire = ref.resp_fetch(5, 0, [(TOPIC.encode(), [(PART, 0, log[-1][0] + 1, data)])])
            ctx.log("reply", idx, cnt)
            try:
                client.resolve(p, list(KafkaCodec.decode_fetch_response(wire, 0)))
                fire_next_timer(clock)
            except Exception as e:  # noqa
                ctx.check(False, "well-formed-fetch-response-decodes", repr(e))
                return
        ctx.check(not res, "start-deferred-not-fired", repr(res))
        ctx.check(bool(commits), "commits-issued", "no commit was issued")
        # restart from the committed position: the first message re-delivered is the one stored right after it
        if commits:
            nxt = [o for (o, _k, _v) in log if o > commits[-1]]
            ctx.check(commits[-1] in [o for (o, _k, _v) in log], "restart-resumes-after-committed", "committed offset %r is not the offset of a stored message; a restart would resume at %r" % (commits[-1], nxt[:1]))
        ctx.log("end", commits)

    return run


def scenario(job):
    if job.get("kind") == "bytes":
        return _bytes_scenario(job)
    n, K = job["n"], job["K"]

    def run(ctx):
        offs = []
        for i in range(n):
            offs.append(ctx.int("o", 0, 2**62) if i == 0 else offs[-1] + ctx.int("gap", 1, 2**40))
        msgs = [Message(0, 0, None, b"v%d" % i) for i in range(n)]
        store = {"v": None}  # coordinator's stored offset
        acked = []  # every value the store acknowledged or reported
        ctx.sig("ac=%s proc=%s stop_on_fail=%s" % (job["ac"], job["proc"], job["stop_on_fail"]))

        w = World()

        def boot(start):
            w.clock = Clock()
            w.client = ContractClient(ctx, w.clock)
            w.pend = None  # (deferred, first_idx, last_idx)
            w.blocks = []  # [first, last, state] state in 'pending','ok','failed'
            w.fails = 1
            w.first_fetch_seen = False
            w.client.on_request = on_request
            w.consumer = Consumer(
                w.client,
                TOPIC,
                PART,
                processor,
                consumer_group="g",
                auto_commit_every_n=job["ac"][0],
                auto_commit_every_ms=job["ac"][1],
            )
            w.res = []
            d = w.consumer.start(start)
            d.addBoth(on_start_result)
            w.sd = None
            w.stopped = False
            w.unrecoverable = False
            w.retriable_fail = False

        def on_start_result(r):
            w.res.append(r)
            # the start() Deferred reports a failure only for something unrecoverable that actually happened (a processor
            # failure, a commit refused for good); retriable commit errors and back-off are not that
            if isinstance(r, Failure):
                # (shutdown() limits the number of attempts, so a retriable commit failure can be the last permitted one then)
                ctx.check(w.unrecoverable or (w.retriable_fail and w.sd is not None), "start-deferred-fails-only-on-unrecoverable-error", "start() Deferred failed with %r although nothing unrecoverable was injected" % (r.value,))
            else:
                ctx.check(w.stopped or w.sd is not None or w.consumer._stopping, "start-deferred-succeeds-only-on-stop", "start() Deferred fired with %r while running" % (r,))
            if isinstance(r, Failure) and job["stop_on_fail"] and w.consumer._start_d is not None and not w.consumer._stopping:
                ctx.log("app-stops-on-failure")
                w.stopped = True
                w.consumer.stop()

        def ok_hi():
            """one past the last log index of the contiguous successfully-processed prefix"""
            hi = w.k0
            for (a, b, s) in w.blocks:
                if s != "ok" or a != hi:
                    break
                hi = b + 1
            return hi

        def find(m):
            for k in range(n):
                if msgs[k] is m:
                    return k
            return None

        def processor(consumer, block):
            a, b = find(block[0].message), find(block[-1].message)
            ctx.log("proc", a, b)
            if job["proc"] == "async":
                d = Deferred()
                ent = [a, b, "pending"]
                w.blocks.append(ent)
                w.pend = (d, ent)
                return d
            if w.fails > 0 and ctx.choose("proc_raises", 2) == 1:
                w.fails -= 1
                w.unrecoverable = True
                w.blocks.append([a, b, "failed"])
                kind = ctx.choose("proc_error_kind", 2)
                ctx.log("proc-raised", kind)
                # a processor may fail with any exception, including a cancellation of its own making (e.g. its own time-out)
                raise (RuntimeError("processor failed") if kind == 0 else TCancelledError())
            w.blocks.append([a, b, "ok"])
            return None

        def on_request(kind, p):
            c = w.consumer
            if kind == "commit":
                [req] = p.args["payloads"]
                ctx.log("commit-req", req.offset)
                ctx.check(len(w.client.outstanding("commit")) <= 1, "one-commit-outstanding")
                lp = c.last_processed_offset
                ctx.check(
                    lp is not None and req.offset == lp,
                    "commit-value-is-last-processed-at-issue",
                    "commit carries %s, last_processed_offset is %s" % (req.offset, lp),
                )
                hi = ok_hi()
                if hi == w.k0:
                    ctx.check(False, "commit-not-ahead-of-successful-processing", "commit %s issued before any message was processed successfully" % (req.offset,))
                else:
                    ctx.check(
                        req.offset <= offs[hi - 1],
                        "commit-not-ahead-of-successful-processing",
                        "commit %s but messages are successfully processed only up to log index %d" % (req.offset, hi - 1),
                    )
                ctx.check(req.topic == TOPIC and req.partition == PART and p.args["group"] == "g", "commit-names-own-partition")
            elif kind == "fetch":
                [req] = p.args["payloads"]
                ctx.log("fetch", req.offset)
                if w.restarted and not w.first_fetch_seen and w.resume_expected is not None:
                    ctx.check(
                        req.offset == w.resume_expected,
                        "restart-resumes-after-committed",
                        "restart fetches at %s, store holds %s" % (req.offset, store["v"]),
                    )
                w.first_fetch_seen = True
            else:
                ctx.log(kind)

        w.restarted = False
        w.resume_expected = None
        w.k0 = 0
        boot(offs[0])
        crash_at = ctx.choose("crash_at", K + 1)  # K = no crash
        cfaults = [job["cfaults"]]
        nxt = [0]  # next log index the broker hands out
        ended = [False]

        def reply(p):
            if p.kind == "fetch":
                [req] = p.args["payloads"]
                i = nxt[0]
                if i >= n:
                    ctx.log("fetch-reply-empty")
                    w.client.resolve(p, [FetchResponse(TOPIC, PART, 0, 0, iter(()))])
                    return
                last = i + ctx.choose("block_len", min(2, n - i))
                nxt[0] = last + 1
                ctx.log("fetch-reply", i, last)
                w.client.resolve(
                    p, [FetchResponse(TOPIC, PART, 0, 0, iter([OffsetAndMessage(offs[j], msgs[j]) for j in range(i, last + 1)]))]
                )
            elif p.kind == "commit":
                [req] = p.args["payloads"]
                kinds = [0]
                if cfaults[0] > 0:
                    kinds += [1, 2, 3, 4]
                k = kinds[ctx.choose("commit_outcome", len(kinds))] if len(kinds) > 1 else 0
                ctx.log("commit-reply", k)
                if k == 0:
                    store["v"] = req.offset
                    acked.append(req.offset)
                    w.client.resolve(p, [OffsetCommitResponse(TOPIC, PART, 0)])
                    return
                cfaults[0] -= 1
                if k in (1, 2):
                    w.retriable_fail = True
                if k == 1:
                    w.client.fail(p, NotCoordinator())
                elif k == 2:  # applied by the broker, reply lost
                    store["v"] = req.offset
                    w.client.fail(p, FailedPayloadsError([], [(req, Failure(RequestTimedOutError("lost")))]))
                elif k == 3:
                    w.unrecoverable = True
                    w.client.fail(p, IllegalGeneration())
                else:
                    w.unrecoverable = True
                    w.client.fail(p, ValueError("not a kafka error"))
            elif p.kind == "offset_fetch":
                v = store["v"]
                ctx.log("offset-fetch-reply", v)
                if v is None:
                    w.client.resolve(p, [OffsetFetchResponse(TOPIC, PART, -1, b"", 0)])
                else:
                    acked.append(v)
                    w.resume_expected = v + 1
                    w.client.resolve(p, [OffsetFetchResponse(TOPIC, PART, v, b"", 0)])
            elif p.kind == "offset":
                ctx.log("offset-reply")
                w.client.resolve(p, [OffsetResponse(TOPIC, PART, 0, (offs[0],))])

        def check_state():
            lc = w.consumer.last_committed_offset
            if lc is not None:
                ctx.check(
                    sym_or(*[lc == v for v in acked]) if acked else False,
                    "last-committed-only-acked-or-reported",
                    "last_committed_offset=%s but the store acknowledged/reported only %r" % (lc, acked),
                )

        manual = []
        ev = 0
        while ev < K:
            if ev == crash_at and not w.restarted:
                ctx.log("CRASH")
                w.restarted = True
                # the messages handed out but not committed will be fetched again
                boot(OFFSET_COMMITTED)
                nxt[0] = 0 if store["v"] is None else None
                if store["v"] is not None:
                    # broker hands out from the first entry above the committed offset
                    k = 0
                    while k < n and not (offs[k] > store["v"]):
                        k += 1
                    nxt[0] = k
                w.k0 = nxt[0]
            acts = []
            if w.client.pending:
                acts.append(0)
            if w.pend is not None:
                acts += [1, 2] if w.fails > 0 else [1]
            if w.consumer._start_d is not None and w.sd is None:
                acts.append(3)
            if next_timer(w.clock) is not None:
                acts.append(4)
            if w.consumer._start_d is not None and w.sd is None and ev >= 2:
                acts += [5, 6]
            if not acts:
                break
            a = ctx.choose("ev", 7, enabled=acts)
            ev += 1
            if a == 0:
                # which pending request is answered (commit and fetch may both be outstanding)
                ps = w.client.pending
                p = ps[ctx.choose("which", len(ps))] if len(ps) > 1 else ps[0]
                reply(p)
            elif a in (1, 2):
                (d, ent), w.pend = w.pend, None
                if a == 1:
                    ent[2] = "ok"
                    ctx.log("proc-ok")
                    d.callback(None)
                else:
                    w.fails -= 1
                    w.unrecoverable = True
                    ent[2] = "failed"
                    kind = ctx.choose("proc_error_kind", 2)
                    ctx.log("proc-failed", kind)
                    d.errback(RuntimeError("async processor failed") if kind == 0 else TCancelledError())
            elif a == 3:
                ctx.log("manual-commit")
                r = []
                cd = w.consumer.commit()
                cd.addBoth(r.append)
                manual.append(r)
            elif a == 4:
                ctx.log("timer", fire_next_timer(w.clock))
            elif a == 5:
                ctx.log("stop")
                w.stopped = True
                w.consumer.stop()
            elif a == 6:
                ctx.log("shutdown")
                w.sd = []
                w.consumer.shutdown().addBoth(w.sd.append)
            check_state()
        # manual commit results must be consistent with the store
        for r in manual:
            if r and not isinstance(r[0], Failure) and r[0] is not None:
                ctx.check(sym_or(*[r[0] == v for v in acked]) if acked else False, "commit-result-is-acked-value")
        ctx.log("end", len(acked))

    return run
