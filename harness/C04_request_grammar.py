"""C04 -- Every request on the wire conforms to the Kafka protocol grammar.

Engine A: each request encoder runs under CrossHair on symbolic field values; the bytes are
parsed by the independent reference parser (layout chosen by the header's api key/version,
body must be consumed completely) and compared field by field.  Integer fields range beyond
their wire width: out of range must raise struct.error, never emit a wrapped value.
Engine B (symrun): version selection (ApiVersions discovery, fallback, encoder/decoder pairing)
over all advertised tables in the bound."""
import struct
import time

import afkak._util
import afkak.kafkacodec
from afkak import kafkacodec as kc
from afkak.common import (
    CODEC_GZIP,
    ApiVersionRequest,
    FetchRequest,
    Message,
    OffsetCommitRequest,
    OffsetFetchRequest,
    OffsetRequest,
    ProduceRequest,
    _HeartbeatRequest,
    _JoinGroupRequest,
    _JoinGroupRequestProtocol,
    _LeaveGroupRequest,
    _SyncGroupRequest,
    _SyncGroupRequestMember,
)
from afkak.kafkacodec import KafkaCodec, create_message_set

from vlib.ref import kafka_ref as ref

ID = "C04"
ENGINE = "m"

W16 = (-(2**17), 2**17)
W32 = (-(2**40), 2**40)
W64 = (-(2**70), 2**70)
R16 = (-(2**15), 2**15 - 1)
R32 = (-(2**31), 2**31 - 1)
R64 = (-(2**63), 2**63 - 1)

TOPICS = ["t", "topic.2", "a" * 249]
PARTS = [0, 1, 2**31 - 1]
TEXTS = ["grp", "", "gé中"]

_REAL_GZ = (kc.gzip_encode, kc.gzip_decode)
_REAL_TIME = kc.time.time


def setup_symbolic():
    from vlib.chplug import plugin

    afkak.kafkacodec.range = plugin.sym_range
    afkak._util.range = plugin.sym_range
    kc.gzip_encode, kc.gzip_decode = (lambda b: b"\x1f\x8b" + b), (lambda b: b[2:])
    kc.time = _FixedTime  # create_message(magic=1) stamps messages with the wall clock


class _FixedTime:
    @staticmethod
    def time():
        return 1700000000.25


def setup_concrete():
    for m in (afkak.kafkacodec, afkak._util):
        m.__dict__.pop("range", None)
    kc.gzip_encode, kc.gzip_decode = _REAL_GZ
    kc.time = _FixedTime


def _in(v, r):
    return r[0] <= v <= r[1]


def _hdr(g, nbytes):
    return g.bytes(nbytes, "cid"), g.int(*W32)


def _check_hdr(q, key, ver, corr, cid):
    if q["api_key"] != key:
        return "api key"
    if q["api_version"] != ver:
        return "api version"
    if q["correlation_id"] != corr:
        return "correlation id"
    if q["client_id"] != cid:
        return "client id"
    return ""


def _run(encode, in_range):
    """-> (bytes or None, label).  Out-of-range input must raise struct.error."""
    try:
        data = encode()
    except struct.error:
        if in_range:
            return None, "struct.error on in-range input"
        return None, ""
    if not in_range:
        return None, "out-of-range integer was emitted instead of raising struct.error"
    return data, ""


def _parse(data):
    try:
        return ref.parse_request(data), ""
    except ref.ParseError as e:
        return None, "reference parser rejects the request: %s" % (str(e)[:120],)


def _bytes(g, kind, name="y"):
    if kind == "n":
        return None
    if kind == "e":
        return b""
    return g.bytes(int(kind), name)


# ------------------------------------------------------------------------------ bodies


def b_produce(g, version, shape, cid_len, codec=0):
    """shape: [(topic index, partition index, [(keykind, valkind)])]"""
    cid, corr = _hdr(g, cid_len)
    acks, timeout = g.int(*W16), g.int(*W32)
    magic = 1 if version >= 2 else 0
    payloads, exp = [], []
    rng = _in(corr, R32) and _in(acks, R16) and _in(timeout, R32)
    for (ti, pi, mspec) in shape:
        msgs = []
        for (kk, vk) in mspec:
            key, val = _bytes(g, kk, "k"), _bytes(g, vk, "v")
            if magic == 1:
                # (inside a gzip wrapper the harness itself encodes the inner set: keep those timestamps in range)
                ts = g.int(*(R64 if codec == CODEC_GZIP else W64))
                rng = rng and _in(ts, R64)
                msgs.append(Message(1, 0, key, val, ts))
            else:
                msgs.append(Message(0, 0, key, val))
        if codec == CODEC_GZIP and msgs:
            inner = KafkaCodec._encode_message_set(msgs)
            ts = g.int(*R64) if magic == 1 else None
            wrapped = [Message(magic, CODEC_GZIP, None, kc.gzip_encode(inner), ts) if magic == 1 else Message(0, CODEC_GZIP, None, kc.gzip_encode(inner))]
            payloads.append(ProduceRequest(TOPICS[ti], PARTS[pi], wrapped))
            exp.append((TOPICS[ti], PARTS[pi], wrapped))
        else:
            payloads.append(ProduceRequest(TOPICS[ti], PARTS[pi], msgs))
            exp.append((TOPICS[ti], PARTS[pi], msgs))
    data, lbl = _run(lambda: KafkaCodec.encode_produce_request(cid, corr, payloads, acks, timeout, version), rng)
    if data is None:
        return lbl
    q, lbl = _parse(data)
    if q is None:
        return lbl
    h = _check_hdr(q, 0, version, corr, cid)
    if h:
        return h
    b = q["body"]
    if b["acks"] != acks or b["timeout"] != timeout:
        return "acks/timeout"
    flat = [(t, p, ms) for (t, ps) in b["topics"] for (p, ms) in ps]
    if len(flat) != len(exp):
        return "payload count"
    # topics grouped in order of first appearance, partitions in order within a topic
    order = []
    for (t, p, m) in exp:
        if t not in order:
            order.append(t)
    exp_sorted = [e for t in order for e in exp if e[0] == t]
    if [t for (t, ps) in b["topics"]] != [t.encode() for t in order]:
        return "topic order"
    for (t, p, ms), (et, ep, emsgs) in zip(flat, exp_sorted):
        if t != et.encode() or p != ep:
            return "topic/partition"
        if len(ms) != len(emsgs):
            return "message count"
        for (off, pm), m in zip(ms, emsgs):
            if off != 0:
                return "message offset"
            if not pm["crc_ok"]:
                return "checksum"
            if pm["magic"] != m.magic or pm["attributes"] != m.attributes:
                return "magic/attributes"
            if (pm["key"] is None) != (m.key is None) or (pm["value"] is None) != (m.value is None):
                return "null-vs-empty"
            if m.key is not None and pm["key"] != m.key:
                return "key"
            if m.value is not None and pm["value"] != m.value:
                return "value"
            if m.magic == 1 and pm["timestamp"] != m.timestamp:
                return "timestamp"
    return ""


def b_fetch(g, version, shape, cid_len):
    """shape: [(topic index, partition index)]"""
    cid, corr = _hdr(g, cid_len)
    mw, mb = g.int(*W32), g.int(*W32)
    rng = _in(corr, R32) and _in(mw, R32) and _in(mb, R32)
    payloads = []
    for (ti, pi) in shape:
        off, mx = g.int(*W64), g.int(*W32)
        rng = rng and _in(off, R64) and _in(mx, R32)
        payloads.append(FetchRequest(TOPICS[ti], PARTS[pi], off, mx))
    data, lbl = _run(lambda: KafkaCodec.encode_fetch_request(cid, corr, payloads, max_wait_time=mw, min_bytes=mb, api_version=version), rng)
    if data is None:
        return lbl
    q, lbl = _parse(data)
    if q is None:
        return lbl
    h = _check_hdr(q, 1, version, corr, cid)
    if h:
        return h
    b = q["body"]
    if b["replica_id"] != -1 or b["max_wait"] != mw or b["min_bytes"] != mb:
        return "replica/max_wait/min_bytes"
    flat = [(t, p) for (t, ps) in b["topics"] for p in ps]
    order = []
    for pl in payloads:
        if pl.topic not in order:
            order.append(pl.topic)
    exp = [pl for t in order for pl in payloads if pl.topic == t]
    if len(flat) != len(exp):
        return "payload count"
    for (t, (p, off, mx)), pl in zip(flat, exp):
        if t != pl.topic.encode() or p != pl.partition or off != pl.offset or mx != pl.max_bytes:
            return "partition entry"
    return ""


def b_list_offsets(g, shape, cid_len):
    cid, corr = _hdr(g, cid_len)
    rng = _in(corr, R32)
    payloads = []
    for (ti, pi) in shape:
        tm, mo = g.int(*W64), g.int(*W32)
        rng = rng and _in(tm, R64) and _in(mo, R32)
        payloads.append(OffsetRequest(TOPICS[ti], PARTS[pi], tm, mo))
    data, lbl = _run(lambda: KafkaCodec.encode_offset_request(cid, corr, payloads), rng)
    if data is None:
        return lbl
    q, lbl = _parse(data)
    if q is None:
        return lbl
    h = _check_hdr(q, 2, 0, corr, cid)
    if h:
        return h
    b = q["body"]
    if b["replica_id"] != -1:
        return "replica id"
    flat = [(t, p) for (t, ps) in b["topics"] for p in ps]
    order = []
    for pl in payloads:
        if pl.topic not in order:
            order.append(pl.topic)
    exp = [pl for t in order for pl in payloads if pl.topic == t]
    if len(flat) != len(exp):
        return "payload count"
    for (t, (p, tm, mo)), pl in zip(flat, exp):
        if t != pl.topic.encode() or p != pl.partition or tm != pl.time or mo != pl.max_offsets:
            return "partition entry"
    return ""


def b_metadata(g, topics, cid_len):
    cid, corr = _hdr(g, cid_len)
    ts = None if topics is None else [TOPICS[i] for i in topics]
    data, lbl = _run(lambda: KafkaCodec.encode_metadata_request(cid, corr, ts), _in(corr, R32))
    if data is None:
        return lbl
    q, lbl = _parse(data)
    if q is None:
        return lbl
    h = _check_hdr(q, 3, 0, corr, cid)
    if h:
        return h
    if q["body"]["topics"] != [t.encode() for t in (ts or [])]:
        return "topics"
    return ""


def b_find_coordinator(g, gi, cid_len):
    cid, corr = _hdr(g, cid_len)
    grp = ["grp", "", "a.b-c_1"][gi]
    data, lbl = _run(lambda: KafkaCodec.encode_consumermetadata_request(cid, corr, grp), _in(corr, R32))
    if data is None:
        return lbl
    q, lbl = _parse(data)
    if q is None:
        return lbl
    return _check_hdr(q, 10, 0, corr, cid) or ("" if q["body"]["group"] == grp.encode() else "group")


def b_offset_commit(g, shape, cid_len):
    """shape: [(ti, pi, metakind)]"""
    cid, corr = _hdr(g, cid_len)
    gen = g.int(*W32)
    rng = _in(corr, R32) and _in(gen, R32)
    payloads = []
    for (ti, pi, mk) in shape:
        off, ts = g.int(*W64), g.int(*W64)
        rng = rng and _in(off, R64) and _in(ts, R64)
        payloads.append(OffsetCommitRequest(TOPICS[ti], PARTS[pi], off, ts, _bytes(g, mk, "m")))
    data, lbl = _run(lambda: KafkaCodec.encode_offset_commit_request(cid, corr, "grp", gen, "member-1", payloads), rng)
    if data is None:
        return lbl
    q, lbl = _parse(data)
    if q is None:
        return lbl
    h = _check_hdr(q, 8, 1, corr, cid)
    if h:
        return h
    b = q["body"]
    if b["group"] != b"grp" or b["generation"] != gen or b["member"] != b"member-1":
        return "group/generation/member"
    flat = [(t, p) for (t, ps) in b["topics"] for p in ps]
    order = []
    for pl in payloads:
        if pl.topic not in order:
            order.append(pl.topic)
    exp = [pl for t in order for pl in payloads if pl.topic == t]
    if len(flat) != len(exp):
        return "payload count"
    for (t, (p, off, ts, md)), pl in zip(flat, exp):
        if t != pl.topic.encode() or p != pl.partition or off != pl.offset or ts != pl.timestamp:
            return "partition entry"
        if (md is None) != (pl.metadata is None) or (md is not None and md != pl.metadata):
            return "metadata null-vs-empty"
    return ""


def b_offset_fetch(g, shape, cid_len):
    cid, corr = _hdr(g, cid_len)
    payloads = [OffsetFetchRequest(TOPICS[ti], PARTS[pi]) for (ti, pi) in shape]
    data, lbl = _run(lambda: KafkaCodec.encode_offset_fetch_request(cid, corr, "g2", payloads), _in(corr, R32))
    if data is None:
        return lbl
    q, lbl = _parse(data)
    if q is None:
        return lbl
    h = _check_hdr(q, 9, 1, corr, cid)
    if h:
        return h
    b = q["body"]
    if b["group"] != b"g2":
        return "group"
    flat = [(t, p) for (t, ps) in b["topics"] for p in ps]
    order = []
    for pl in payloads:
        if pl.topic not in order:
            order.append(pl.topic)
    exp = [pl for t in order for pl in payloads if pl.topic == t]
    if flat != [(pl.topic.encode(), pl.partition) for pl in exp]:
        return "partitions"
    return ""


def b_join_group(g, gi, protos, cid_len):
    """protos: list of metadata kinds"""
    cid, corr = _hdr(g, cid_len)
    st = g.int(*W32)
    grp, member = TEXTS[gi], TEXTS[(gi + 1) % 3]
    gps = [_JoinGroupRequestProtocol("proto%d" % i, _bytes(g, k, "pm")) for i, k in enumerate(protos)]
    pl = _JoinGroupRequest(grp, st, member, "consumer", gps)
    data, lbl = _run(lambda: KafkaCodec.encode_join_group_request(cid, corr, pl), _in(corr, R32) and _in(st, R32))
    if data is None:
        return lbl
    q, lbl = _parse(data)
    if q is None:
        return lbl
    h = _check_hdr(q, 11, 0, corr, cid)
    if h:
        return h
    b = q["body"]
    if b["group"] != grp.encode("utf-8") or b["member"] != member.encode("utf-8") or b["protocol_type"] != b"consumer":
        return "strings"
    if b["session_timeout"] != st:
        return "session timeout"
    if len(b["protocols"]) != len(gps):
        return "protocol count"
    for (n, md), gp in zip(b["protocols"], gps):
        if n != gp.protocol_name.encode():
            return "protocol name"
        if (md is None) != (gp.protocol_metadata is None) or (md is not None and md != gp.protocol_metadata):
            return "protocol metadata"
    return ""


def b_sync_group(g, gi, members, cid_len):
    cid, corr = _hdr(g, cid_len)
    gen = g.int(*W32)
    grp, member = TEXTS[gi], TEXTS[(gi + 2) % 3]
    asg = [_SyncGroupRequestMember("m%d" % i, _bytes(g, k, "as")) for i, k in enumerate(members)]
    pl = _SyncGroupRequest(grp, gen, member, asg)
    data, lbl = _run(lambda: KafkaCodec.encode_sync_group_request(cid, corr, pl), _in(corr, R32) and _in(gen, R32))
    if data is None:
        return lbl
    q, lbl = _parse(data)
    if q is None:
        return lbl
    h = _check_hdr(q, 14, 0, corr, cid)
    if h:
        return h
    b = q["body"]
    if b["group"] != grp.encode("utf-8") or b["member"] != member.encode("utf-8") or b["generation"] != gen:
        return "group/member/generation"
    if len(b["assignments"]) != len(asg):
        return "assignment count"
    for (mid, md), a in zip(b["assignments"], asg):
        if mid != a.member_id.encode():
            return "member id"
        if (md is None) != (a.member_metadata is None) or (md is not None and md != a.member_metadata):
            return "assignment bytes"
    return ""


def b_heartbeat(g, gi, cid_len):
    cid, corr = _hdr(g, cid_len)
    gen = g.int(*W32)
    grp, member = TEXTS[gi], TEXTS[(gi + 1) % 3]
    data, lbl = _run(lambda: KafkaCodec.encode_heartbeat_request(cid, corr, _HeartbeatRequest(grp, gen, member)), _in(corr, R32) and _in(gen, R32))
    if data is None:
        return lbl
    q, lbl = _parse(data)
    if q is None:
        return lbl
    h = _check_hdr(q, 12, 0, corr, cid)
    if h:
        return h
    b = q["body"]
    return "" if (b["group"] == grp.encode("utf-8") and b["member"] == member.encode("utf-8") and b["generation"] == gen) else "fields"


def b_leave_group(g, gi, cid_len):
    cid, corr = _hdr(g, cid_len)
    grp, member = TEXTS[gi], TEXTS[(gi + 1) % 3]
    data, lbl = _run(lambda: KafkaCodec.encode_leave_group_request(cid, corr, _LeaveGroupRequest(grp, member)), _in(corr, R32))
    if data is None:
        return lbl
    q, lbl = _parse(data)
    if q is None:
        return lbl
    h = _check_hdr(q, 13, 0, corr, cid)
    if h:
        return h
    b = q["body"]
    return "" if (b["group"] == grp.encode("utf-8") and b["member"] == member.encode("utf-8")) else "fields"


def b_api_versions(g, cid_len):
    cid, corr = _hdr(g, cid_len)
    data, lbl = _run(
        lambda: KafkaCodec.encode_api_versions_request(cid, corr, ApiVersionRequest(KafkaCodec.API_VERSIONS_KEY, 0)), _in(corr, R32)
    )
    if data is None:
        return lbl
    q, lbl = _parse(data)
    if q is None:
        return lbl
    return _check_hdr(q, 18, 0, corr, cid)


def b_protocol_metadata(g, subs, ukind):
    ver = g.int(*W16)
    topics = [TOPICS[i] for i in subs]
    u = _bytes(g, ukind, "u")
    data, lbl = _run(lambda: KafkaCodec.encode_join_group_protocol_metadata(ver, topics, u), _in(ver, R16))
    if data is None:
        return lbl
    try:
        q = ref.parse_consumer_protocol_metadata(data)
    except ref.ParseError as e:
        return "reference parser rejects: %s" % (e,)
    if q["version"] != ver or q["topics"] != [t.encode() for t in topics]:
        return "fields"
    if (q["user_data"] is None) != (u is None) or (u is not None and q["user_data"] != u):
        return "user data"
    return ""


def b_assignment(g, shape, ukind):
    """shape: [(topic index, nparts)]"""
    asg = {}
    rng = True
    for (ti, n) in shape:
        ps = []
        for _ in range(n):
            p = g.int(*W32)
            rng = rng and _in(p, R32)
            ps.append(p)
        asg[TOPICS[ti]] = ps
    u = _bytes(g, ukind, "u")
    data, lbl = _run(lambda: KafkaCodec.encode_sync_group_member_assignment(0, asg, u), rng)
    if data is None:
        return lbl
    try:
        q = ref.parse_consumer_assignment(data)
    except ref.ParseError as e:
        return "reference parser rejects: %s" % (e,)
    if q["version"] != 0 or len(q["topics"]) != len(asg):
        return "fields"
    for (name, ps), (en, eps) in zip(q["topics"], asg.items()):
        if name != en.encode() or len(ps) != len(eps):
            return "topic"
        for a, b in zip(ps, eps):
            if a != b:
                return "partition id"
    if (q["user_data"] is None) != (u is None) or (u is not None and q["user_data"] != u):
        return "user data"
    return ""


def b_message_set_builder(g, codec, magic, spec):
    """create_message_set(requests, codec, magic): message order and key propagation"""
    reqs, exp = [], []
    for (nmsgs, keykind) in spec:
        key = _bytes(g, keykind, "k")
        msgs = [_bytes(g, "1", "v") if i % 2 == 0 else None for i in range(nmsgs)]
        reqs.append(ProduceRequest("t", 0, msgs) if False else _Req(key, msgs))
        exp += [(key, m) for m in msgs]
    out = create_message_set(reqs, codec, magic=magic)
    if codec == CODEC_GZIP:
        if len(out) != 1 or (out[0].attributes & 3) != CODEC_GZIP or out[0].magic != magic or out[0].key is not None:
            return "wrapper"
        inner = ref.parse_message_set(kc.gzip_decode(out[0].value))
        got = [(pm["key"], pm["value"], pm["magic"], pm["crc_ok"]) for (_o, pm) in inner]
    else:
        got = [(m.key, m.value, m.magic, True) for m in out]
    if len(got) != len(exp):
        return "count"
    for (k, v, mg, ok), (ek, ev) in zip(got, exp):
        if not ok:
            return "checksum"
        if mg != magic:
            return "magic"
        if (k is None) != (ek is None) or (v is None) != (ev is None):
            return "null-vs-empty"
        if ek is not None and k != ek:
            return "key"
        if ev is not None and v != ev:
            return "value"
    return ""


class _Req:
    def __init__(self, key, messages):
        self.key = key
        self.messages = messages


# ------------------------------------------------------------------------------ obligations


def obligations(tier):
    q = tier == "quick"
    M = "harness.C04_request_grammar"
    obs = []

    def add(name, fn, timeout=60, **kw):
        obs.append({"name": name, "module": M, "fn": fn, "kwargs": kw, "timeout": timeout * 5 if q else timeout * 12})

    mspecs = [[], [("n", "1")], [("1", "n"), ("e", "e")]] + ([] if q else [[("2", "3"), ("n", "n"), ("e", "2")]])
    for v in (0, 2):
        add("produce_v%d no-payloads" % v, "b_produce", version=v, shape=[], cid_len=0)
        for ms in mspecs:
            add("produce_v%d one-partition msgs=%r" % (v, ms), "b_produce", timeout=90, version=v, shape=[(0, 0, ms)], cid_len=2)
        add("produce_v%d two-topics" % v, "b_produce", timeout=120, version=v, shape=[(0, 2, [("1", "1")]), (1, 0, [("n", "e")]), (0, 1, [("e", "n")])], cid_len=1)
        add("produce_v%d longest-topic" % v, "b_produce", timeout=90, version=v, shape=[(2, 1, [("n", "2")])], cid_len=3)
        add("produce_v%d gzip" % v, "b_produce", timeout=120, version=v, shape=[(0, 0, [("1", "1"), ("n", "e")])], cid_len=1, codec=CODEC_GZIP)
    fshapes = [[], [(0, 0)], [(0, 2), (1, 0)], [(0, 1), (1, 1), (0, 2)]] + ([] if q else [[(2, 0), (2, 1), (2, 2), (0, 0)]])
    for v in (0, 2):
        for sh in fshapes:
            add("fetch_v%d %r" % (v, sh), "b_fetch", version=v, shape=sh, cid_len=len(sh) % 4)
    for sh in fshapes:
        add("list_offsets %r" % sh, "b_list_offsets", shape=sh, cid_len=1)
        add("offset_fetch %r" % sh, "b_offset_fetch", shape=sh, cid_len=2)
    for ts in (None, [], [0], [1, 2], [0, 1, 2]):
        add("metadata %r" % (ts,), "b_metadata", topics=ts, cid_len=3 if ts else 0)
    for gi in (0, 1, 2):
        add("find_coordinator group#%d" % gi, "b_find_coordinator", gi=gi, cid_len=gi)
        add("heartbeat text#%d" % gi, "b_heartbeat", gi=gi, cid_len=gi)
        add("leave_group text#%d" % gi, "b_leave_group", gi=gi, cid_len=gi)
    cshapes = [[], [(0, 0, "n")], [(0, 1, "e"), (1, 0, "2")], [(0, 0, "1"), (1, 2, "n"), (0, 2, "e")]]
    for sh in cshapes:
        add("offset_commit %r" % sh, "b_offset_commit", timeout=90, shape=sh, cid_len=1)
    for gi, protos in [(0, []), (1, ["e"]), (2, ["2", "n"]), (0, ["3"])]:
        add("join_group text#%d protos=%r" % (gi, protos), "b_join_group", gi=gi, protos=protos, cid_len=gi)
    for gi, members in [(0, []), (1, ["e"]), (2, ["2", "n"]), (0, ["1", "1", "e"])]:
        add("sync_group text#%d members=%r" % (gi, members), "b_sync_group", gi=gi, members=members, cid_len=gi)
    for n in (0, 2):
        add("api_versions cid=%d" % n, "b_api_versions", cid_len=n)
    for subs, uk in [([], "e"), ([0], "n"), ([1, 2], "2")]:
        add("protocol_metadata %r user=%s" % (subs, uk), "b_protocol_metadata", subs=subs, ukind=uk)
    for sh, uk in [([], "e"), ([(0, 0)], "n"), ([(0, 2)], "e"), ([(1, 1), (0, 3)], "1")]:
        add("member_assignment %r user=%s" % (sh, uk), "b_assignment", shape=sh, ukind=uk)
    for codec in (0, CODEC_GZIP):
        for magic in (0, 1):
            add("create_message_set codec=%d magic=%d" % (codec, magic), "b_message_set_builder", timeout=90, codec=codec, magic=magic, spec=[(2, "1"), (1, "n"), (3, "e")])
    return obs


def functions():
    K = KafkaCodec
    from afkak.client import KafkaClient
    from afkak.producer import Producer

    return [
        K._encode_message_header, K._encode_message_set, K._encode_message, K.encode_produce_request, K.encode_fetch_request,
        K.encode_offset_request, K.encode_metadata_request, K.encode_consumermetadata_request, K.encode_offset_commit_request,
        K.encode_offset_fetch_request, K.encode_join_group_request, K.encode_join_group_protocol_metadata,
        K.encode_sync_group_request, K.encode_sync_group_member_assignment, K.encode_heartbeat_request,
        K.encode_leave_group_request, K.encode_api_versions_request, kc.create_message, kc.create_message_set,
        kc.create_gzip_message, afkak._util.write_int_string, afkak._util.write_short_ascii, afkak._util.write_short_text,
        afkak._util.write_short_bytes, KafkaClient.get_api_version, KafkaClient.fetch_api_versions,
        KafkaClient._handle_api_version_update, KafkaClient.send_produce_request, KafkaClient.send_fetch_request,
        Producer._send_requests,
    ]


def main(tier):
    from harness import aux_c04_versions as C04_versions
    from vlib.chplug import enginea

    extra, cov = C04_versions.run(tier)
    return enginea.main(__name__, tier, extra_results=extra, extra_cov=cov)


def replay(path):
    import json

    from vlib.chplug import enginea

    v = json.load(open(path))
    if v.get("versions"):
        from harness import aux_c04_versions as C04_versions

        return C04_versions.replay(v)
    return enginea.replay_file(__name__, path)


ASSUMPTIONS = [
    "struct modelled as fresh byte variables + one linear equality per integer; abstract linear checksum shared by afkak and the reference parser; gzip as tagged identity (real struct/zlib/gzip in every replay)",
    "topic names, partition ids and group/member texts come from finite pools (they are dict keys or go through str.encode); client id, keys, values, metadata bytes and every integer field are symbolic",
    "reference parser vlib/ref/kafka_ref.py written from the protocol guide; it accepts a request only if the body is consumed completely under the layout of the header's (api key, version)",
    "version selection: _send_broker_unaware_request / _send_broker_aware_request of the real KafkaClient are replaced by recording stand-ins; the advertised table is a symbolic permutation (finite-domain choices)",
]

BOUNDS = {
    "integers": "each integer field symbolic over a superset of its wire range (16-bit: +-2^17, 32-bit: +-2^40, 64-bit: +-2^70)",
    "shapes": "0..3 topics x 0..3 partitions x 0..2 (quick) / 0..3 (thorough) messages; client id 0..3 bytes; keys/values/metadata null, empty, 1..3 bytes",
    "version_tables": "rows for api keys {0,1,3,18,+2} in any order (120 permutations), produce/fetch max in {2,3,9,11}, optional missing unrelated row; discovery ok / error code / 3 transport failures",
    "outside": "non-ASCII where the encoder is write_short_ascii (documented UnicodeEncodeError); snappy; API versions not listed in the property",
}
