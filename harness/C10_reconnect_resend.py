"""C10 -- After a connection drop, unanswered requests are re-sent once, in order.

Engine B.  Real _KafkaBrokerClient + KafkaProtocol over SimNet; retry policy n -> n seconds so that
back-off delays identify the consecutive-failure count."""
import struct

from twisted.internet.defer import CancelledError
from twisted.internet.task import Clock
from twisted.python.failure import Failure

from afkak._protocol import KafkaProtocol
from afkak.brokerclient import _KafkaBrokerClient
from afkak.common import BrokerMetadata, ClientError

from vlib.sim.contract import fire_next_timer, next_timer
from vlib.sim.net import SimNet, frame

ID = "C10"
ENGINE = "b"

REQUIRED_LABELS = [
    "new-connection-gets-exactly-the-unanswered-requests-in-order",
    "reconnect-attempted-when-requests-remain",
    "backoff-follows-retry-policy",
    "failure-count-resets-after-success",
    "idle-drop-does-not-reconnect",
    "close-fails-pending-and-stops-connecting",
    "never-resent-after-answer-cancel-or-no-reply",
]

ASSUMPTIONS = [
    "TCP replaced by SimNet/SimTransport; a drop 'inside a frame' is a response delivered up to a cut point followed by connection loss",
    "retry policy is n -> n * unit with unit a symbolic positive real (z3 Real; virtual time is exact), so delays are compared exactly against whatever the policy returned; afkak.brokerclient.datetime.utcfromtimestamp is a pass-through (log text only)",
    "request ids are dict keys -> concrete pool; flags, drop points and event order are symbolic choices",
]


def functions():
    return [
        _KafkaBrokerClient._connectionLost,
        _KafkaBrokerClient._sendQueued,
        _KafkaBrokerClient._sendRequest,
        _KafkaBrokerClient._connect,
        _KafkaBrokerClient.close,
        _KafkaBrokerClient.makeRequest,
        _KafkaBrokerClient._cancelRequest,
        _KafkaBrokerClient.handleResponse,
        KafkaProtocol.connectionLost,
    ]


def bounds(tier):
    q = tier == "quick"
    return {
        "script_events": "8 (7 with no-reply requests)" if q else "9 (8)",
        "requests": 3,
        "consecutive_connect_failures": "0..3",
        "outside": "more than 3 requests; retry policies other than n -> n",
    }


def limits(tier):
    return {"validate": "all" if tier == "quick" else 5, "max_seconds": 900 if tier == "quick" else 3400, "split_depth": 3}


def jobs(tier):
    q = tier == "quick"
    return [{"K": 8 if q else 9, "noreply": False}, {"K": 7 if q else 8, "noreply": True},
            # the endpoint's connect() may fail before it returns (already-failed Deferred)
            {"K": 7 if q else 8, "noreply": False, "sync": True},
            # ... or succeed before it returns (already-connected protocol)
            {"K": 6 if q else 7, "noreply": False, "sync_accept": True}]


class _PassThroughDatetime:
    """afkak.brokerclient only uses datetime.utcfromtimestamp for log messages; virtual time here is a symbolic real"""

    @staticmethod
    def utcfromtimestamp(x):
        return x


import afkak.brokerclient as _bcmod  # noqa: E402

_bcmod.datetime = _PassThroughDatetime


class _FirstN:
    """set-like: 'contains' the next n addresses asked for"""

    def __init__(self):
        self.n = 0
        self.used = False

    def __contains__(self, key):
        if self.n > 0:
            self.n -= 1
            self.used = True
            return True
        return False


class Req:
    def __init__(self, cid, expect):
        self.cid = cid
        self.expect = expect
        self.payload = struct.pack(">hhih", 0, 0, cid, 0) + b"rq%d" % cid
        self.res = []
        self.cancelled = False
        self.written = 0  # on how many connections it has been written
        self.d = None


def scenario(job):
    K = job["K"]

    def run(ctx):
        clock = Clock()
        net = SimNet()
        # the configured back-off: retry_policy(failures) = failures * unit, with the unit a symbolic real (so any cap, floor or
        # rounding the code applies to the policy's answer is visible, whatever its constant)
        from fractions import Fraction

        clock.rightNow = 0.0 if ctx.symbolic else Fraction(0)
        unit = ctx.real("backoff_unit", 0, 100000) if job.get("sym_backoff", True) else 1
        if not ctx.assume(unit > 0):
            return
        bc = _KafkaBrokerClient(clock, net.endpoint_factory, BrokerMetadata(7, "h", 9092), "cid", lambda n: n * unit)
        reqs = []
        st = {"closed": False, "fails": 0, "ever_connected": False, "attempts_at_close": None, "sync_budget": 2}
        armed = _FirstN()
        net.sync_refuse = armed
        if job.get("sync_accept"):
            net.sync_accept = {("h", 9092)}
        ctx.sig("noreply=%s%s%s" % (job["noreply"], " sync-connect-failures" if job.get("sync") else "", " sync-accept" if job.get("sync_accept") else ""))

        def open_tr():
            ts = net.open_transports()
            return ts[-1] if ts else None

        def live(r):
            return not r.res and not r.cancelled

        def on_res(v, r):
            r.res.append(v)
            ctx.check(len(r.res) == 1, "completes-at-most-once", "request %d fired %d times" % (r.cid, len(r.res)))

        def expected_on_connect():
            return [r for r in reqs if live(r) and (r.expect or r.written == 0)]

        def check_connecting(where):
            """whenever unanswered requests remain and there is no connection: an attempt or a back-off timer must be pending"""
            if st["closed"]:
                return
            need = [r for r in reqs if live(r)]
            if need and open_tr() is None:
                ctx.check(
                    bool(net.pending_attempts()) or next_timer(clock) is not None,
                    "reconnect-attempted-when-requests-remain",
                    "%s: %d unanswered requests, no connection, no attempt, no timer" % (where, len(need)),
                )

        for ev in range(K):
            acts = []
            tr = open_tr()
            if len(reqs) < 3 and not st["closed"]:
                acts.append(0)
            if net.pending_attempts():
                acts += [1, 2] if st["fails"] < 3 else [1]
            if tr is not None and not tr.lose_requested:
                sent_live = [r for r in reqs if live(r) and r.expect and r.payload in tr.frames()]
                # requests cancelled after they were written: the broker still answers them (late reply)
                sent_live += [r for r in reqs if r.cancelled and r.expect and r.payload in tr.frames() and r.cid in bc.requests]
                if sent_live:
                    acts += [3, 4]
                acts.append(5)
            if tr is not None and tr.lose_requested:
                acts.append(5)
            if [r for r in reqs if live(r)]:
                acts.append(6)
            if next_timer(clock) is not None:
                acts.append(7)
            if not st["closed"]:
                acts.append(8)
            if job.get("sync") and armed.n == 0 and st["sync_budget"] > 0 and not st["closed"] and st["fails"] < 3:
                acts.append(9)
            if not acts:
                break
            a = ctx.choose("ev", 10, enabled=sorted(set(acts)))
            try:
                if a == 0:
                    cid = 30 + len(reqs)
                    expect = not (job["noreply"] and ctx.choose("expect", 2) == 1)
                    r = Req(cid, expect)
                    reqs.append(r)
                    had_conn = open_tr() is not None
                    n_att = len(net.attempts)
                    ctx.log("request", cid, expect)
                    r.d = bc.makeRequest(cid, r.payload, expectResponse=expect)
                    r.d.addBoth(on_res, r)
                    trn = open_tr()
                    if trn is not None and r.payload in trn.frames():
                        r.written += 1
                    if not had_conn:
                        ctx.check(
                            bool(net.pending_attempts()) or next_timer(clock) is not None or (trn is not None and r.payload in trn.frames()),
                            "reconnect-attempted-when-requests-remain",
                            "request issued while disconnected but no connection attempt follows",
                        )
                elif a == 1:
                    exp = expected_on_connect()
                    at = net.pending_attempts()[0]
                    ctx.log("established")
                    trn = at.establish()
                    st["fails"] = 0
                    st["ever_connected"] = True
                    got = trn.frames()
                    want = [r.payload for r in exp]
                    ctx.check(
                        got == want,
                        "new-connection-gets-exactly-the-unanswered-requests-in-order",
                        "connection received requests %r, expected %r" % ([_cid(p) for p in got], [r.cid for r in exp]),
                    )
                    for r in reqs:
                        if r.payload in got:
                            if r not in exp:
                                ctx.check(False, "never-resent-after-answer-cancel-or-no-reply", "request %d re-sent (answered/cancelled/no-reply)" % r.cid)
                            r.written += 1
                    ctx.check(True, "never-resent-after-answer-cancel-or-no-reply")
                elif a == 2:
                    at = net.pending_attempts()[0]
                    st["fails"] += 1
                    ctx.log("refused", st["fails"])
                    at.refuse()
                    t = next_timer(clock)
                    ok = t is not None and (t.getTime() - clock.seconds()) == st["fails"] * unit
                    ctx.check(ok, "backoff-follows-retry-policy", "after failure %d the next attempt is due in %r s, the policy says %r" % (st["fails"], None if t is None else t.getTime() - clock.seconds(), st["fails"] * unit))
                    if st["ever_connected"]:
                        ctx.check(ok, "failure-count-resets-after-success")
                    ctx.check(not net.pending_attempts(), "no-attempt-during-backoff")
                elif a in (3, 4):
                    r = sent_live[ctx.choose("answer_which", len(sent_live))] if len(sent_live) > 1 else sent_live[0]
                    data = frame(struct.pack(">i", r.cid) + b"ok%d" % r.cid)
                    if a == 3 and r.cancelled:
                        ctx.log("late-answer-to-cancelled", r.cid)
                        n_before = [len(x.res) for x in reqs]
                        tr.deliver(data)
                        ctx.check([len(x.res) for x in reqs] == n_before, "late-answer-to-cancelled-request-completes-nothing", "a late reply to cancelled request %d fired something" % r.cid)
                    elif a == 3:
                        ctx.log("answer", r.cid)
                        tr.deliver(data)
                        ctx.check(len(r.res) == 1 and r.res[0] == data[4:], "answer-completes-request", repr(r.res))
                    else:
                        cut = (2, 6, len(data) - 1)[ctx.choose("cut", 3)]
                        ctx.log("partial-answer-then-drop", r.cid, cut)
                        tr.deliver(data[:cut])
                        ctx.check(r.cancelled or not r.res, "partial-frame-completes-nothing")
                        tr.drop()
                        check_connecting("drop inside a frame")
                elif a == 5:
                    ctx.log("drop")
                    need = [r for r in reqs if live(r)]
                    n_att = len(net.attempts)
                    tr.drop()
                    if not need and not st["closed"]:
                        ctx.check(
                            len(net.attempts) == n_att and next_timer(clock) is None,
                            "idle-drop-does-not-reconnect",
                            "idle connection dropped and a reconnect was started",
                        )
                    check_connecting("drop")
                elif a == 6:
                    cands = [r for r in reqs if live(r)]
                    r = cands[ctx.choose("cancel_which", len(cands))] if len(cands) > 1 else cands[0]
                    ctx.log("cancel", r.cid)
                    r.cancelled = True
                    r.d.cancel()
                    ctx.check(len(r.res) == 1 and isinstance(r.res[0], Failure) and r.res[0].check(CancelledError), "cancel-fails-request", repr(r.res))
                elif a == 7:
                    n_att = len(net.attempts)
                    ctx.log("timer", fire_next_timer(clock))
                    if not st["closed"]:
                        ctx.check(len(net.attempts) == n_att + 1, "backoff-follows-retry-policy", "back-off expired but no connection attempt was made")
                elif a == 9:
                    ctx.log("next-connect-fails-immediately")
                    armed.n = 1
                    st["sync_budget"] -= 1
                elif a == 8:
                    ctx.log("close")
                    st["closed"] = True
                    pend = [r for r in reqs if live(r)]
                    atts = net.pending_attempts()
                    cd = []
                    bc.close().addBoth(cd.append)
                    for r in pend:
                        ctx.check(
                            len(r.res) == 1 and isinstance(r.res[0], Failure) and r.res[0].check(ClientError),
                            "close-fails-pending-and-stops-connecting",
                            "request %d after close: %r" % (r.cid, r.res),
                        )
                    for at in atts:
                        ctx.check(at.state == "cancelled", "close-fails-pending-and-stops-connecting", "pending connection attempt not cancelled by close()")
                    ctx.check(next_timer(clock) is None, "close-fails-pending-and-stops-connecting", "back-off timer survives close()")
                    st["attempts_at_close"] = len(net.attempts)
                    tro = open_tr()
                    if tro is not None:
                        ctx.check(tro.lose_requested, "close-drops-connection")
                        ctx.check(not cd, "close-deferred-waits-for-connection-loss")
                        tro.drop()
                    ctx.check(len(cd) == 1, "close-deferred-fires-once", repr(cd))
            except Exception as e:  # noqa
                import traceback

                ctx.check(False, "no-exception-escapes", "%r %s" % (e, traceback.format_exc()[-800:]))
                return
            if armed.used:
                armed.used = False
                st["fails"] += 1
                ctx.log("connect-failed-immediately", st["fails"])
                if not st["closed"]:
                    t = next_timer(clock)
                    ok = t is not None and (t.getTime() - clock.seconds()) == st["fails"] * unit
                    ctx.check(ok, "backoff-follows-retry-policy", "after immediate failure %d the next attempt is due in %r s" % (st["fails"], None if t is None else t.getTime() - clock.seconds()))
                    ctx.check(not net.pending_attempts(), "no-attempt-during-backoff")
            if st["closed"]:
                ctx.check(
                    len(net.attempts) == st["attempts_at_close"] and not net.pending_attempts(),
                    "close-fails-pending-and-stops-connecting",
                    "connection attempt after close()",
                )
        ctx.log("end", [(r.cid, len(r.res), r.written) for r in reqs])

    return run


def _cid(payload):
    return struct.unpack(">i", payload[4:8])[0]
