"""C14 -- Consumer retries, offset-reset policy and buffer growth follow the contract.

Engine B.  Three scenario families on the real Consumer against ContractClient:
 retry : symbolic failure/success pattern, attempt limit as SymInt, delays compared exactly
 reset : OffsetOutOfRange at a symbolic script position under each policy
 grow  : S-step/iterated buffer growth with SymInt buffer / max / message sizes"""
from twisted.internet.task import Clock
from twisted.python.failure import Failure

from afkak.common import (
    OFFSET_COMMITTED,
    OFFSET_EARLIEST,
    OFFSET_LATEST,
    ConsumerFetchSizeTooSmall,
    FailedPayloadsError,
    FetchResponse,
    LeaderNotAvailableError,
    Message,
    OffsetAndMessage,
    OffsetOutOfRangeError,
    OffsetFetchResponse,
    OffsetResponse,
    RequestTimedOutError,
    UnknownTopicOrPartitionError,
)
from afkak import consumer as consumer_mod
from afkak.consumer import Consumer

from vlib.sim.contract import ContractClient, fire_next_timer, next_timer
from vlib.symrun import sym_ite, sym_min, sym_and, sym_or, sym_not

ID = "C14"
ENGINE = "b"
TOPIC, PART = "t", 0

REQUIRED_LABELS = [
    "retry-delay-geometric-capped",
    "fails-within-attempt-limit",
    "reset-policy-next-request",
    "reset-none-fails-start",
    "grow-next-max-bytes",
    "grow-same-offset",
    "grow-fails-iff-max-too-small",
    "grow-delivers-message",
]

ASSUMPTIONS = [
    "KafkaClient replaced by ContractClient (outcome alphabet cross-checked by C07)",
    "request_retry_max_attempts is injected as a symbolic attribute after construction (the constructor applies int())",
    "float back-off arithmetic is replicated by the oracle with the same operations (no abstraction to reals)",
    "reactor = twisted Clock stepped to the next due timer; logging disabled",
]


def functions():
    return [
        Consumer._retry_fetch,
        Consumer._handle_fetch_error,
        Consumer._handle_offset_error,
        Consumer._handle_offset_response,
        Consumer._handle_fetch_response,
        Consumer._do_fetch,
        Consumer.__init__,
    ]


def bounds(tier):
    q = tier == "quick"
    return {
        "retry_pattern_length": 5 if q else 7,
        "attempt_limit": "SymInt in [0,4]" if q else "SymInt in [0,6]",
        "delays(init,max)": [(0.1, 30.0), (1.0, 1.5), (20.0, 30.0)],
        "reset_script_length": 4 if q else 6,
        "buffer_size": "SymInt in [1, 2^30]",
        "max_buffer_size": "None or SymInt in [buffer_size, 2^31]",
        "message_size": "SymInt in [1, 2^31+1]",
        "growth_iterations": 16,
        "outside": "wall-clock time; delays beyond float precision of the replicated operations",
    }


def limits(tier):
    return {"validate": "all", "max_seconds": 900 if tier == "quick" else 3000}


def jobs(tier):
    q = tier == "quick"
    out = []
    for dl in ((0.1, 30.0), (1.0, 1.5), (20.0, 30.0)):
        for start in ("num", "earliest", "committed"):
            if start == "committed" and dl != (1.0, 1.5) and q:
                continue
            out.append({"fam": "retry", "delays": dl, "start": start, "P": 5 if q else 7, "Lmax": 4 if q else 6})
    for policy in (None, OFFSET_EARLIEST, OFFSET_LATEST):
        for lim in (0, 2):
            out.append({"fam": "reset", "policy": policy, "P": 4 if q else 6, "limit": lim})
    for mx in ("none", "sym"):
        out.append({"fam": "grow", "max": mx})
    return out


FACTOR = 1.20205  # the documented constant (Apery), deliberately not read from the code


def _mk_fail(ctx, client, p, kind):
    if kind == 0:
        client.fail(p, UnknownTopicOrPartitionError())
    elif kind == 1:
        client.fail(p, FailedPayloadsError([], [(p.args["payloads"][0], Failure(RequestTimedOutError("t/o")))]))
    elif p.kind == "fetch" and ctx.choose("cancelled_by_third_party", 2) == 1:
        # the request Deferred is cancelled by something other than the consumer's own stop(): a failure like any other
        from twisted.internet.defer import CancelledError as TCancelledError

        client.fail(p, TCancelledError())
    else:
        client.fail(p, LeaderNotAvailableError())


def scenario(job):
    fam = job["fam"]
    if fam == "retry":
        return _retry(job)
    if fam == "reset":
        return _reset(job)
    return _grow(job)


def _retry(job):
    init, mx = job["delays"]

    def run(ctx):
        clock = Clock()
        client = ContractClient(ctx, clock)
        calls = []
        gkw = dict(consumer_group="g", auto_commit_every_n=0, auto_commit_every_ms=0) if job["start"] == "committed" else {}
        consumer = Consumer(
            client, TOPIC, PART, lambda c, m: calls.append(m), request_retry_init_delay=init, request_retry_max_delay=mx, **gkw
        )
        L = ctx.int("limit", 0, job["Lmax"])
        consumer.request_retry_max_attempts = L
        ctx.sig("retry delays=%s start=%s" % (job["delays"], job["start"]))
        res = []
        consumer.start({"num": 1000, "earliest": OFFSET_EARLIEST, "committed": OFFSET_COMMITTED}[job["start"]]).addBoth(res.append)
        small_left = [1]
        exp_delay = float(init)  # oracle's copy of the back-off state
        cf = 0  # consecutive failed attempts
        for step in range(job["P"]):
            if res:
                break
            if not client.pending:
                ctx.check(False, "always-a-request-or-timer", "no request outstanding and none scheduled")
                break
            p = client.pending[0]
            k = ctx.choose("outcome", 5 if (p.kind == "fetch" and small_left[0] > 0) else 4)
            ctx.log("req", p.kind, "outcome", k)
            if k == 4:
                # a successful fetch whose first message does not fit the buffer: the consumer enlarges the buffer and fetches
                # again at once -- the request succeeded, so the retry delay and the attempt count start afresh
                small_left[0] -= 1
                cf = 0
                exp_delay = float(init)

                def gen_small():
                    raise ConsumerFetchSizeTooSmall()
                    yield  # pragma: no cover

                client.resolve(p, [FetchResponse(TOPIC, PART, 0, 0, gen_small())])
                t = next_timer(clock)
                ctx.check(t is not None and t.getTime() - clock.seconds() == 0, "refetch-immediately-after-success", "after a too-small answer the next fetch is not immediate")
                fire_next_timer(clock)
                continue
            if k == 3:  # success
                cf = 0
                exp_delay = float(init)
                if p.kind == "offset_fetch":
                    # the group's committed position: a real offset, or "nothing committed yet" (-1), after which the consumer
                    # must look up the earliest/latest offset -- either way this request succeeded
                    none_yet = ctx.choose("nothing_committed", 2) == 1
                    client.resolve(p, [OffsetFetchResponse(TOPIC, PART, -1 if none_yet else 41, b"", 0)])
                    ctx.check(bool(client.outstanding("offset" if none_yet else "fetch")), "fetch-follows-offset-resolution", "after the committed-offset answer (none=%s) outstanding: %r" % (none_yet, [x.kind for x in client.pending]))
                    continue
                if p.kind == "offset":
                    client.resolve(p, [OffsetResponse(TOPIC, PART, 0, (7,))])
                    # consumer fetches straight away (no timer)
                    ctx.check(bool(client.outstanding("fetch")), "fetch-follows-offset-resolution")
                    continue
                client.resolve(p, [FetchResponse(TOPIC, PART, 0, 0, iter(()))])
                t = next_timer(clock)
                ctx.check(t is not None and t.getTime() - clock.seconds() == 0, "refetch-immediately-after-success")
                fire_next_timer(clock)
                continue
            cf += 1
            _mk_fail(ctx, client, p, k)
            if res:
                # start() failed: permitted only with a limit, after 1..L consecutive failures
                ctx.check(sym_and(L >= 1, cf <= L), "fails-within-attempt-limit", "failed after %d consecutive failures" % cf)
                ctx.log("start-failed", cf)
                break
            ctx.check(sym_or(L == 0, cf < L), "gives-up-at-limit", "still retrying after %d consecutive failures" % cf)
            t = next_timer(clock)
            ctx.check(t is not None, "retry-scheduled")
            if t is None:
                break
            d = t.getTime() - clock.seconds()
            ctx.check(
                abs(d - exp_delay) < 1e-9, "retry-delay-geometric-capped", "retry after %r s, expected %r s" % (d, exp_delay)
            )
            ctx.log("retry-in", d)
            exp_delay = min(exp_delay * FACTOR, float(mx))
            fire_next_timer(clock)
        ctx.log("end", bool(res), cf)

    return run


def _reset(job):
    policy = job["policy"]

    def run(ctx):
        clock = Clock()
        client = ContractClient(ctx, clock)
        consumer = Consumer(
            client, TOPIC, PART, lambda c, m: None, auto_offset_reset=policy, request_retry_max_attempts=job["limit"]
        )
        ctx.sig("reset policy=%r limit=%r" % (policy, job["limit"]))
        res = []
        consumer.start(500).addBoth(res.append)
        oor_at = ctx.choose("oor_at", job["P"])
        for step in range(job["P"]):
            if res or not client.pending:
                break
            p = client.pending[0]
            if step == oor_at and p.kind == "fetch":
                ctx.log("oor", step)
                failed_before = consumer._fetch_attempt_count
                client.fail(p, OffsetOutOfRangeError())
                if policy is None:
                    ctx.check(
                        len(res) == 1 and isinstance(res[0], Failure) and res[0].check(OffsetOutOfRangeError) is not None,
                        "reset-none-fails-start",
                        "policy None but start() result is %r" % (res,),
                    )
                    ctx.check(next_timer(clock) is None and not client.pending, "reset-none-stops-fetching")
                    break
                if res:
                    # attempts exhausted at the same time: allowed only with a limit
                    ctx.check(job["limit"] != 0, "reset-fail-only-with-limit")
                    break
                ctx.check(next_timer(clock) is not None, "reset-retry-scheduled")
                fire_next_timer(clock)
                nxt = client.pending[0] if client.pending else None
                ok = nxt is not None and nxt.kind == "offset" and nxt.args["payloads"][0].time == policy
                ctx.check(ok, "reset-policy-next-request", "after OffsetOutOfRange next request is %r" % (nxt and (nxt.kind, nxt.args),))
                continue
            k = ctx.choose("outcome", 2)
            if k == 0:
                if p.kind == "offset":
                    client.resolve(p, [OffsetResponse(TOPIC, PART, 0, (42,))])
                else:
                    client.resolve(p, [FetchResponse(TOPIC, PART, 0, 0, iter(()))])
                    fire_next_timer(clock)
            else:
                _mk_fail(ctx, client, p, 0)
                if res:
                    break
                fire_next_timer(clock)
        ctx.log("end", bool(res))

    return run


def _grow(job):
    def run(ctx):
        clock = Clock()
        client = ContractClient(ctx, clock)
        b0 = ctx.int("buffer", 1, 2**30)
        mx = None
        if job["max"] == "sym":
            mx = ctx.int("maxbuf", 1, 2**31)
            if not ctx.assume(mx >= b0):
                return
        m = ctx.int("msgsize", 1, 2**31 + 1)
        got = []
        consumer = Consumer(client, TOPIC, PART, lambda c, msgs: got.extend(msgs), buffer_size=b0, max_buffer_size=mx)
        ctx.sig("grow max=%s" % job["max"])
        res = []
        consumer.start(77).addBoth(res.append)
        b = b0
        msg = Message(0, 0, None, b"big")
        for it in range(40):
            if res or not client.pending:
                break
            p = client.pending[0]
            [req] = p.args["payloads"]
            ctx.check(req.offset == 77, "grow-same-offset", "fetch offset moved to %s" % (req.offset,))
            ctx.check(req.max_bytes == b, "grow-next-max-bytes", "max_bytes %s, expected %s" % (req.max_bytes, b))
            if req.max_bytes >= m:
                client.resolve(p, [FetchResponse(TOPIC, PART, 0, 78, iter([OffsetAndMessage(77, msg)]))])
                ctx.check(len(got) == 1 and got[0].message is msg and got[0].offset == 77, "grow-delivers-message")
                ctx.log("delivered", it)
                break

            def small():
                raise ConsumerFetchSizeTooSmall()
                yield  # pragma: no cover

            client.resolve(p, [FetchResponse(TOPIC, PART, 0, 78, small())])
            # oracle: documented growth rule
            if mx is None:
                nb = b * 16 if (b <= 2**20) else b * 2
                should_fail = False
            else:
                should_fail = not (b < mx)
                nb = sym_min(b * 16 if (b <= 2**20) else b * 2, mx)
            ctx.check(
                bool(res) == bool(should_fail),
                "grow-fails-iff-max-too-small",
                "buffer %s max %s: start result %r" % (b, mx, res),
            )
            if res:
                ctx.check(
                    isinstance(res[0], Failure) and res[0].check(ConsumerFetchSizeTooSmall) is not None,
                    "grow-failure-kind",
                )
                ctx.check(not got, "grow-never-skips")
                if mx is not None:
                    ctx.check(m > mx, "grow-fails-only-when-message-exceeds-max")
                break
            b = nb
            ctx.check(next_timer(clock) is not None, "grow-refetch-scheduled")
            fire_next_timer(clock)
        else:
            ctx.check(False, "grow-terminates", "no delivery or failure within 40 growth steps")
        ctx.log("end", bool(res), len(got))

    return run
