"""C18, 'the producer keeps one partitioner per topic' (engine B / symrun): the real Producer with its default
RoundRobinPartitioner against the contract client; sends, per-payload broker errors (NotLeaderForPartition resets the
topic's metadata and retries), metadata reloads returning the same partition list, timers and further sends are a
symbolic script; the partitions selected for successive sends must walk the cycle."""
from afkak.common import CODEC_NONE

from vlib.sim.producer_world import make_scenario

TAG = "producer_rr"
PREFIX = "producer"
REQUIRED = ["round-robin-fair-across-sends"]
NOTE = "real Producer + RoundRobinPartitioner over the contract client; partition list unchanged across metadata reloads"


def jobs(tier):
    q = tier == "quick"
    out = []
    for batch in (False, True):
        out.append({"acks": 1, "batch": batch, "batch_n": 2, "batch_b": 0, "batch_t": 0, "codec": CODEC_NONE, "api": 0, "K": 7 if q else 8,
                    "sends": 4, "faults": 2, "max_attempts": 3, "sym_attempts": False, "interval": 0.25, "two_topics": False, "cancel": False,
                    "stop": False, "variants": 1, "errcodes": 1, "parts": 3, "rr": True})
    return out


def scenario(job):
    return make_scenario(job, {"rr"})
