"""C12, 'a truncated final message makes the consumer enlarge its buffer rather than skip' (engine B / symrun): the buffer-growth
scenario of the C14 harness (symbolic buffer size, maximum and message size; growth iterated until delivery or failure),
run here as well because this clause of C12 is decided by the consumer, not by the decoder."""
from harness import C14_consumer_retry as c14

TAG = "grow"
PREFIX = "grow"
REQUIRED = ["grow-next-max-bytes", "grow-same-offset", "grow-fails-iff-max-too-small", "grow-delivers-message"]
NOTE = "same scenario as C14 family 'grow'"
VALIDATE = "all"


def jobs(tier):
    return [j for j in c14.jobs(tier) if j.get("fam") == "grow"]


def scenario(job):
    return c14.scenario(job)
