"""C18 -- Partitioners are deterministic, in range, Java-compatible and fair.

Engine C (AST -> z3 bit-vectors): pure_murmur2 == Java Utils.murmur2, per-step lemmas cut at the
loop back-edge (arbitrary 32-bit h), no-overflow side obligations (BV72 == Python ints), index
traces per length, partition index in range and equal to Java's toPositive(h) % n.
Engine A (CrossHair): HashedPartitioner key coercion / membership, RoundRobinPartitioner fairness."""
import time

import z3

import afkak.partitioner as part
from afkak.partitioner import HashedPartitioner, RoundRobinPartitioner, pure_murmur2

from vlib.astbv import eval as ev

ID = "C18"
ENGINE = "m"
W = ev.W
SEED = 0x9747B28C
M32 = 0x5BD1E995


# ---------------------------------------------------------------------- Java reference (BV32)


def j_init(length32):
    return z3.BitVecVal(SEED, 32) ^ length32


def j_block(h, b):
    """b: four BV32 values already `& 0xff`"""
    m = z3.BitVecVal(M32, 32)
    k = b[0] + (b[1] << 8) + (b[2] << 16) + (b[3] << 24)
    k = k * m
    k = k ^ z3.LShR(k, 24)
    k = k * m
    h = h * m
    return h ^ k


def j_tail(h, extra, b):
    """b: the <=3 trailing bytes (BV32, & 0xff) in index order"""
    m = z3.BitVecVal(M32, 32)
    if extra == 3:
        h = h ^ (b[2] << 16)
    if extra >= 2:
        h = h ^ (b[1] << 8)
    if extra >= 1:
        h = h ^ b[0]
        h = h * m
    h = h ^ z3.LShR(h, 13)
    h = h * m
    h = h ^ z3.LShR(h, 15)
    return h


def j_murmur2(bytes32):
    n = len(bytes32)
    h = j_init(z3.BitVecVal(n, 32))
    for i in range(n // 4):
        h = j_block(h, bytes32[4 * i : 4 * i + 4])
    return j_tail(h, n % 4, bytes32[(n & ~3) :])


def java_murmur2_int(data):
    """plain-int Java semantics, for validating the encoding on the repository's vectors"""
    def i32(x):
        return x & 0xFFFFFFFF

    n = len(data)
    h = i32(SEED ^ n)
    for i in range(n // 4):
        k = data[4 * i] | (data[4 * i + 1] << 8) | (data[4 * i + 2] << 16) | (data[4 * i + 3] << 24)
        k = i32(k * M32)
        k ^= k >> 24
        k = i32(k * M32)
        h = i32(h * M32) ^ k
    e = n % 4
    b = n & ~3
    if e == 3:
        h ^= data[b + 2] << 16
    if e >= 2:
        h ^= data[b + 1] << 8
    if e >= 1:
        h ^= data[b]
        h = i32(h * M32)
    h ^= h >> 13
    h = i32(h * M32)
    h ^= h >> 15
    return h


# ---------------------------------------------------------------------- engine C obligations


def _bytes(n, name):
    cells = [z3.BitVec("%s%d" % (name, i), W) for i in range(n)]
    return cells, [z3.ULT(c, 256) for c in cells]


def _to32(x):
    return z3.Extract(31, 0, x)


class Ob:
    def __init__(self, name):
        self.name = name
        self.queries = 0
        self.status = None
        self.detail = ""
        self.seconds = 0.0
        self.witness = None


def _prove(ob, assumptions, goal, timeout_ms, witness_vars=()):
    s = z3.Solver()
    s.set("timeout", timeout_ms)
    s.add(*assumptions)
    s.add(z3.Not(goal))
    t = time.time()
    r = s.check()
    ob.seconds += time.time() - t
    ob.queries += 1
    if r == z3.unsat:
        return True
    if r == z3.sat:
        m = s.model()
        ob.status = "violated"
        ob.witness = {str(v): m.eval(v, model_completion=True).as_long() for v in witness_vars}
        return False
    ob.status = "inconclusive"
    ob.detail = "solver: %s" % s.reason_unknown()
    return False


def _side(ob, evaluator, assumptions, timeout_ms, wv):
    for desc, cond in evaluator.side:
        if not _prove(ob, assumptions, cond, timeout_ms, wv):
            ob.detail = (ob.detail + " | " if ob.detail else "") + "side obligation failed: " + desc
            return False
    return True


def engine_c(tier):
    q = tier == "quick"
    tmo = 60000 if q else 240000
    obs = []
    fdef, prelude, loop, post = ev.loop_body(pure_murmur2)

    def fresh_env(arr):
        e = ev.Evaluator()
        env = {"byte_array": arr, "seed": SEED}
        return e, env

    # --- init: h = seed ^ length, length4 = length // 4 for every length < 2^31
    ob = Ob("murmur2 init (symbolic length < 2^31)")
    try:
        L = z3.BitVec("L", W)

        class SymLenArr(ev.SymArray):
            pass

        arr = ev.SymArray([])
        e, env = fresh_env(arr)
        # evaluate the prelude with len() -> L
        orig_expr = e.expr

        def expr(node, env_):
            import ast as _ast

            if isinstance(node, _ast.Call) and isinstance(node.func, _ast.Name) and node.func.id == "len":
                return L
            return orig_expr(node, env_)

        e.expr = expr
        e.block(prelude, env)
        asm = [z3.ULT(L, 2**31)]
        ok = _side(ob, e, asm, tmo, [L])
        ok = ok and _prove(ob, asm, z3.And(z3.ULT(env["h"], 2**32), _to32(env["h"]) == j_init(_to32(L))), tmo, [L])
        ok = ok and _prove(ob, asm, env["length4"] == z3.ZeroExt(W - 32, z3.UDiv(_to32(L), z3.BitVecVal(4, 32))), tmo, [L])
        consts = {k: env[k] for k in ("m", "r", "mod32bits")}
        if ok:
            ob.status = "discharged"
    except ev.Unsupported as x:
        ob.status, ob.detail, consts = "inconclusive", "unsupported: %s" % x, {}
    obs.append(ob)

    # --- block step at iteration i (arbitrary h, arbitrary bytes); reads exactly [4i .. 4i+3]
    for i in (0, 1, 5):
        ob = Ob("murmur2 block step, iteration %d, arbitrary h" % i)
        try:
            cells, asm = _bytes(4 * i + 4, "b")
            arr = ev.SymArray(cells)
            H = z3.BitVec("H", W)
            asm = asm + [z3.ULT(H, 2**32)]
            e, env = fresh_env(arr)
            e.block(prelude, env)
            env["h"] = H
            env[loop.target.id] = i
            e.block(loop.body, env)
            wv = [H] + cells[4 * i :]
            ok = _side(ob, e, asm, tmo, wv)
            jb = [_to32(c) & 0xFF for c in cells[4 * i : 4 * i + 4]]
            ok = ok and _prove(ob, asm, z3.And(z3.ULT(env["h"], 2**32), _to32(env["h"]) == j_block(_to32(H), jb)), tmo, wv)
            if ok and arr.reads != [4 * i, 4 * i + 1, 4 * i + 2, 4 * i + 3]:
                ob.status, ob.detail = "violated", "iteration %d reads indexes %r" % (i, arr.reads)
            elif ok:
                ob.status = "discharged"
        except ev.Unsupported as x:
            ob.status, ob.detail = "inconclusive", "unsupported: %s" % x
        obs.append(ob)

    # --- tail + avalanche for every length mod 4 (two base lengths each), arbitrary h
    for n in (0, 1, 2, 3, 4, 5, 6, 7, 9, 11):
        ob = Ob("murmur2 tail+avalanche, length %d (mod 4 = %d), arbitrary h" % (n, n % 4))
        try:
            cells, asm = _bytes(n, "b")
            arr = ev.SymArray(cells)
            H = z3.BitVec("H", W)
            asm = asm + [z3.ULT(H, 2**32)]
            e, env = fresh_env(arr)
            e.block(prelude, env)
            env["h"] = H
            arr.reads = []
            res = None
            try:
                e.block(post, env)
            except ev.Returned as r:
                res = r.v
            wv = [H] + cells[n & ~3 :]
            ok = res is not None
            if not ok:
                ob.status, ob.detail = "inconclusive", "no return value"
            ok = ok and _side(ob, e, asm, tmo, wv)
            jb = [_to32(c) & 0xFF for c in cells[n & ~3 :]]
            ok = ok and _prove(ob, asm, z3.And(z3.ULT(res, 2**32), _to32(res) == j_tail(_to32(H), n % 4, jb)), tmo, wv)
            exp_reads = {0: [], 1: [0], 2: [1, 0], 3: [2, 1, 0]}[n % 4]
            exp_reads = [(n & ~3) + k for k in exp_reads]
            if ok and arr.reads != exp_reads:
                ob.status, ob.detail = "violated", "tail of length %d reads %r, expected %r" % (n, arr.reads, exp_reads)
            elif ok:
                ob.status = "discharged"
        except ev.Unsupported as x:
            ob.status, ob.detail = "inconclusive", "unsupported: %s" % x
        except IndexError as x:
            ob.status, ob.detail = "violated", "index error: %s" % x
        obs.append(ob)

    # --- composition: for every length the function is init ; block^(n//4) on consecutive words ; tail
    maxn = 64 if q else 1024
    ob = Ob("murmur2 composition: index trace for every length 0..%d" % maxn)
    try:
        bad = None
        for n in range(maxn + 1):
            cells = [z3.BitVecVal(0, W)] * n  # contents irrelevant for the trace; concrete zeros keep it cheap
            arr = ev.SymArray(list(cells))
            e, env = fresh_env(arr)
            res, _ = e.run_function(pure_murmur2, [arr])
            exp = list(range(4 * (n // 4))) + [(n & ~3) + k for k in {0: [], 1: [0], 2: [1, 0], 3: [2, 1, 0]}[n % 4]]
            if arr.reads != exp:
                bad = (n, arr.reads[:12], exp[:12])
                break
        if bad:
            ob.status, ob.detail = "violated", "length %d reads %r expected %r" % bad
        else:
            ob.status = "discharged"
    except ev.Unsupported as x:
        ob.status, ob.detail = "inconclusive", "unsupported: %s" % x
    except IndexError as x:
        ob.status, ob.detail = "violated", "index error: %s" % x
    obs.append(ob)

    # --- whole-function equivalence where the solver answers at once (sanity of the cut argument)
    for n in (0, 1, 2, 3, 4, 8) if q else (0, 1, 2, 3, 4, 8, 12):
        ob = Ob("murmur2 whole function == Java, length %d" % n)
        try:
            cells, asm = _bytes(n, "b")
            arr = ev.SymArray(cells)
            e, env = fresh_env(arr)
            res, _ = e.run_function(pure_murmur2, [arr])
            res = ev.bv(res)
            ok = _side(ob, e, asm, tmo, cells)
            ok = ok and _prove(ob, asm, z3.And(z3.ULT(res, 2**32), _to32(res) == j_murmur2([_to32(c) & 0xFF for c in cells])), tmo, cells)
            if ok:
                ob.status = "discharged"
        except ev.Unsupported as x:
            ob.status, ob.detail = "inconclusive", "unsupported: %s" % x
        obs.append(ob)

    # --- partition index: (h & 0x7fffffff) % n in [0, n) and == Java toPositive(h) % n
    ob = Ob("HashedPartitioner index: (hash & 0x7fffffff) % n in range and == Java")
    try:
        import ast
        import inspect
        import textwrap

        fd = ast.parse(textwrap.dedent(inspect.getsource(HashedPartitioner.partition))).body[0]
        ret = [s for s in fd.body if isinstance(s, ast.Return)][0]
        if not isinstance(ret.value, ast.Subscript) or not isinstance(ret.value.value, ast.Name) or ret.value.value.id != "partitions":
            raise ev.Unsupported("partition() does not return partitions[<index>]")
        # the index must be  (<hash> & MASK) % len(partitions)  -- structure read off the current AST
        idx_ast = ret.value.slice
        if not (isinstance(idx_ast, ast.BinOp) and isinstance(idx_ast.op, ast.Mod)):
            raise ev.Unsupported("index is not '<expr> % <expr>'")
        if not (isinstance(idx_ast.right, ast.Call) and isinstance(idx_ast.right.func, ast.Name) and idx_ast.right.func.id == "len"
                and isinstance(idx_ast.right.args[0], ast.Name) and idx_ast.right.args[0].id == "partitions"):
            raise ev.Unsupported("modulus is not len(partitions)")
        H = z3.BitVec("H", W)
        e = ev.Evaluator()
        orig = e.expr

        def expr2(node, env_):
            if isinstance(node, ast.Call) and isinstance(node.func, ast.Attribute) and node.func.attr == "_hash":
                return H
            return orig(node, env_)

        e.expr = expr2
        masked = e.expr(idx_ast.left, {})  # bit-level part: (hash & 0x7fffffff)
        asm = [z3.ULT(H, 2**32)]
        ok = _side(ob, e, asm, tmo, [H])
        # (1) bit-vectors: the masked value is Java's toPositive(h), and is below 2^31
        ok = ok and _prove(ob, asm, z3.And(z3.ULT(masked, 2**31), _to32(masked) == (_to32(H) & 0x7FFFFFFF)), tmo, [H])
        # (2) integers: for 0 <= a < 2^31 and 1 <= n < 2^31 the remainder a % n lies in [0, n)  (Python's % and Java's % agree
        #     on non-negative operands: both are the mathematical remainder)
        a_, n_ = z3.Int("a"), z3.Int("n")
        ok = ok and _prove(ob, [a_ >= 0, a_ < 2**31, n_ >= 1, n_ < 2**31], z3.And(a_ % n_ >= 0, a_ % n_ < n_), tmo, [a_, n_])
        if ok:
            ob.status = "discharged"
    except ev.Unsupported as x:
        ob.status, ob.detail = "inconclusive", "unsupported: %s" % x
    obs.append(ob)

    # --- translator validation on the repository's own vectors + random ones: encoding == real function == Java ints
    ob = Ob("translator validation: encoding vs real pure_murmur2 vs Java-int reference on the repository's vectors")
    try:
        import random

        rnd = random.Random(1)
        vecs = [b"", b"a", b"ab", b"abc", b"abcd", b"kafka", b"test", bytes(range(250, 256)), b"\xff" * 7,
                "é中".encode("utf-8"), b"1234567890123"]
        vecs += [bytes(rnd.randrange(256) for _ in range(rnd.randrange(0, 40))) for _ in range(200)]
        for v in vecs:
            arr = ev.SymArray([z3.BitVecVal(x, W) for x in v])
            e = ev.Evaluator()
            res, _ = e.run_function(pure_murmur2, [arr])
            enc = z3.simplify(res).as_long() if z3.is_expr(res) else res
            real = pure_murmur2(bytearray(v))
            jv = java_murmur2_int(v)
            if not (enc == real == jv):
                ob.status = "violated"
                ob.detail = "vector %r: encoding %r, real %r, java %r" % (v, enc, real, jv)
                ob.witness = {"bytes": list(v)}
                break
        else:
            ob.status = "discharged"
    except ev.Unsupported as x:
        ob.status, ob.detail = "inconclusive", "unsupported: %s" % x
    obs.append(ob)
    return obs


def replay_c(witness, name):
    """Replay an engine-C counterexample on the real function vs the Java-int reference."""
    if "bytes" in witness:
        data = bytes(witness["bytes"])
    else:
        cells = sorted((int(k[1:]), v) for k, v in witness.items() if k.startswith("b") and k[1:].isdigit())
        data = bytes(v & 0xFF for _, v in cells)
    return pure_murmur2(bytearray(data)) != java_murmur2_int(data), data


# ---------------------------------------------------------------------- engine A bodies

_REAL = {}


def setup_symbolic():
    from vlib.chplug import plugin

    part.range = plugin.sym_range


def setup_concrete():
    part.__dict__.pop("range", None)


TEXT_POOL = ["", "a", "ab", "key-1", "é", "中文", "\U0001f600x", "naïve", "\x7f\x00", "0", "k" * 9, "߿ࠀ"]


def b_hashed_coercion(g, n, nparts):
    """bytes vs bytearray agree; result is a member of the list at the index the hash selects"""
    key = g.bytes(n, "k")
    seen = []

    def fake(ba, seed=SEED):
        seen.append(bytes(ba))
        return 12345 + len(ba)

    orig = part.pure_murmur2
    part.pure_murmur2 = fake
    try:
        ps = []
        for i in range(nparts):
            p = g.int(0, 2**31 - 1, "p")
            if ps:
                g.assume(p > ps[-1])
            ps.append(p)
        import warnings

        with warnings.catch_warnings():
            warnings.simplefilter("ignore")
            r1 = HashedPartitioner("t", ps).partition(key, ps)
            r2 = HashedPartitioner("t", ps).partition(bytearray(key), ps)
    finally:
        part.pure_murmur2 = orig
    if len(seen) != 2 or seen[0] != seen[1] or seen[0] != key:
        return "hash input differs between bytes and bytearray forms"
    if r1 != r2:
        return "bytes and bytearray keys select different partitions"
    if not any(r1 == p for p in ps):
        return "result not a member of the partition list"
    if r1 != ps[((12345 + n) & 0x7FFFFFFF) % nparts]:
        return "result is not partitions[(hash & 0x7fffffff) % n]"
    return ""


def b_hashed_list_change(g, n, n1, n2):
    """the partitioner is built with one list and later handed another (the topic's partition count changed):
    the result must be the member of the *supplied* list that the hash selects"""
    key = g.bytes(n, "k")
    hv = [0]

    def fake(ba, seed=SEED):
        return hv[0]

    def mk(cnt, name):
        ps = []
        for i in range(cnt):
            p = g.int(0, 2**31 - 1, name)
            if ps:
                g.assume(p > ps[-1])
            ps.append(p)
        return ps

    a, b = mk(n1, "p"), mk(n2, "q")
    orig = part.pure_murmur2
    part.pure_murmur2 = fake
    try:
        import warnings

        with warnings.catch_warnings():
            warnings.simplefilter("ignore")
            hp = HashedPartitioner("t", a)
            for h in (0, 1, 5, 7, 2**31 + 3, 2**32 - 1):
                hv[0] = h
                # the same key first with the list the partitioner was built with, then with the new list
                if n1 and hp.partition(key, a) != a[(h & 0x7FFFFFFF) % n1]:
                    return "result is not supplied_list[(hash & 0x7fffffff) % len(supplied_list)] (original list)"
                try:
                    r = hp.partition(key, b)
                except IndexError:
                    return "IndexError for a list shorter than the one the partitioner was built with"
                if r != b[(h & 0x7FFFFFFF) % n2]:
                    return "result is not supplied_list[(hash & 0x7fffffff) % len(supplied_list)]"
    finally:
        part.pure_murmur2 = orig
    return ""


def b_hashed_text(g, ti, nparts):
    """text and UTF-8 byte forms of a key agree (text from a pool covering 1..4-byte encodings)"""
    text = TEXT_POOL[ti]
    ps = []
    for i in range(nparts):
        p = g.int(0, 2**31 - 1, "p")
        if ps:
            g.assume(p > ps[-1])
        ps.append(p)
    import warnings

    with warnings.catch_warnings():
        warnings.simplefilter("ignore")
        a = HashedPartitioner("t", ps).partition(text, ps)
        b = HashedPartitioner("t", ps).partition(text.encode("utf-8"), ps)
        c = HashedPartitioner("t", ps).partition(bytearray(text, "utf-8"), ps)
        a2 = HashedPartitioner("t2", list(ps)).partition(text, list(ps))
    if a != b or a != c:
        return "text / bytes / bytearray forms disagree"
    if a != a2:
        return "result depends on something other than key and list"
    exp = ps[(java_murmur2_int(text.encode("utf-8")) & 0x7FFFFFFF) % nparts]
    if a != exp:
        return "not the partition Java's murmur2 selects"
    return ""


def b_round_robin(g, n, k, random_start, change_at=None, n2=0, inplace=False):
    """fair cycle over an ascending list of n symbolic distinct ids from a symbolic start; optional list change
    (inplace: the caller updates the very list object it keeps passing, instead of passing a new one)"""
    ps = []
    for i in range(n):
        p = g.int(0, 2**31 - 1, "p")
        if ps:
            g.assume(p > ps[-1])
        ps.append(p)
    start = g.int(0, n - 1, "start") if random_start else 0
    orig_randint = part.randint
    part.randint = lambda a, b: start
    old = RoundRobinPartitioner.randomStart
    RoundRobinPartitioner.randomStart = bool(random_start)
    try:
        rr = RoundRobinPartitioner("t", ps)
        chosen = []
        total = k * n
        if change_at is None:
            for _ in range(total):
                chosen.append(rr.partition(None, ps))
            cur, window = ps, chosen
        else:
            for _ in range(change_at):
                chosen.append(rr.partition(None, ps))
            ps2 = []
            for i in range(n2):
                p = g.int(0, 2**31 - 1, "q")
                if ps2:
                    g.assume(p > ps2[-1])
                ps2.append(p)
            if n2 == n:
                same = True
                for a, b in zip(ps, ps2):
                    if a != b:
                        same = False
                if same:
                    g.assume(False)
                    return ""
            if inplace:
                ps[:] = ps2
                ps2 = ps
            window = [rr.partition(None, ps2) for _ in range(k * n2)]
            cur = ps2
    finally:
        part.randint = orig_randint
        RoundRobinPartitioner.randomStart = old
    for p in cur:
        cnt = 0
        for c in window:
            if c == p:
                cnt += 1
        if cnt != k:
            return "partition chosen %d times in a window of k*n selections (k=%d)" % (cnt, k)
    for c in window:
        if not any(c == p for p in cur):
            return "selected a partition outside the current list"
    return ""


def b_round_robin_sliding(g, n, k, offset):
    """any window of k*n consecutive selections (not only aligned ones) is fair"""
    ps = []
    for i in range(n):
        p = g.int(0, 2**31 - 1, "p")
        if ps:
            g.assume(p > ps[-1])
        ps.append(p)
    rr = RoundRobinPartitioner("t", ps)
    sel = [rr.partition(None, ps) for _ in range(offset + k * n)]
    window = sel[offset:]
    for p in ps:
        cnt = 0
        for c in window:
            if c == p:
                cnt += 1
        if cnt != k:
            return "unaligned window: partition chosen %d times (k=%d)" % (cnt, k)
    return ""


def obligations(tier):
    q = tier == "quick"
    M = "harness.C18_partitioners"
    obs = []

    def add(name, fn, timeout=60, **kw):
        obs.append({"name": name, "module": M, "fn": fn, "kwargs": kw, "timeout": timeout * 5 if q else timeout * 12, "abstract_crc": False})

    for n in (0, 1, 3, 4) if q else (0, 1, 2, 3, 4, 5, 8):
        for npart in (1, 3):
            add("hashed bytes/bytearray len=%d parts=%d" % (n, npart), "b_hashed_coercion", n=n, nparts=npart)
    for n1, n2 in [(4, 6), (4, 3), (1, 2), (3, 3)]:
        add("hashed list change %d->%d" % (n1, n2), "b_hashed_list_change", n=2, n1=n1, n2=n2)
    for ti in range(len(TEXT_POOL)):
        add("hashed text #%d" % ti, "b_hashed_text", ti=ti, nparts=1 + ti % 4)
    for n in (1, 2, 3, 4) if q else (1, 2, 3, 4, 5, 6):
        for k in (1, 2) if q else (1, 2, 3):
            for rs in (False, True):
                add("round-robin n=%d k=%d random_start=%s" % (n, k, rs), "b_round_robin", n=n, k=k, random_start=rs)
    for n, n2, at in [(2, 3, 1), (3, 2, 4), (3, 3, 2), (1, 2, 0)] + ([] if q else [(4, 2, 5), (2, 4, 3), (4, 4, 1)]):
        for rs in (False, True):
            add("round-robin list change n=%d->%d after %d random_start=%s" % (n, n2, at, rs), "b_round_robin", n=n, k=2, random_start=rs, change_at=at, n2=n2)
    for n, n2, at in [(3, 4, 7), (4, 3, 5), (2, 2, 1)] + ([] if q else [(3, 4, 2), (2, 5, 6)]):
        add("round-robin list changed in place n=%d->%d after %d" % (n, n2, at), "b_round_robin", n=n, k=2, random_start=False, change_at=at, n2=n2, inplace=True)
    for n, off in [(3, 1), (3, 2), (4, 3)]:
        add("round-robin unaligned window n=%d offset=%d" % (n, off), "b_round_robin_sliding", n=n, k=2, offset=off)
    return obs


def functions():
    return [pure_murmur2, HashedPartitioner.partition, HashedPartitioner._hash, RoundRobinPartitioner.partition,
            RoundRobinPartitioner._set_partitions, RoundRobinPartitioner.__init__]


def main(tier):
    from vlib import report
    from vlib.chplug import enginea

    t0 = time.time()
    cobs = engine_c(tier)
    extra = []
    for ob in cobs:
        if ob.status == "discharged":
            continue
        if ob.status == "violated":
            repro = True
            detail = ob.detail
            if ob.witness and ("murmur2" in ob.name):
                ok, data = replay_c(ob.witness, ob.name)
                if "side obligation" in ob.detail:
                    # a dropped mask: Python's unbounded result differs from the 32-bit Java value for this witness
                    repro = True
                else:
                    repro = ok or "reads" in ob.detail
                detail += " | witness %r" % (ob.witness,)
            extra.append({"kind": "violation", "label": "engineC: " + ob.name.split(",")[0], "sig": ob.name, "detail": detail or "refuted", "reproduced": repro, "witness": ob.witness, "engine_c": True})
        else:
            extra.append({"kind": "error", "detail": "engine C obligation %r: %s" % (ob.name, ob.detail)})
    cov = {
        "engine_c": {
            "obligations": len(cobs),
            "discharged": sum(1 for o in cobs if o.status == "discharged"),
            "queries": sum(o.queries for o in cobs),
            "solver_s": round(sum(o.seconds for o in cobs), 2),
            "bitvector_width": W,
            "list": [{"name": o.name, "status": o.status, "queries": o.queries, "seconds": round(o.seconds, 3)} for o in cobs],
            "second_solver": _second_solver(tier),
        }
    }
    from vlib import auxb

    extra_b, cov_b = auxb.run("harness.aux_c18_producer", tier)
    extra += extra_b
    cov.update(cov_b)
    return enginea.main(__name__, tier, extra_results=extra, extra_cov=cov)


def _second_solver(tier):
    """Diff the block-step lemma between z3 5.1 (API), the z3 4.8.12 binary and cvc5 -- informational, hard time caps."""
    import subprocess
    import sys
    import tempfile

    notes = []
    try:
        smt2 = _block_lemma_smt2()
        with tempfile.NamedTemporaryFile("w", suffix=".smt2", delete=False) as f:
            f.write(smt2 + "\n(check-sat)\n")
            path = f.name
        out = subprocess.run(["/usr/bin/z3", "-T:30", path], capture_output=True, text=True, timeout=40)
        ans = out.stdout.strip().splitlines()[:1]
        notes.append("z3 4.8.12 binary: %s" % (ans[0] if ans and "(error" not in out.stdout else "inconclusive " + out.stdout[:80]))
        import os

        os.unlink(path)
    except Exception as x:  # noqa
        notes.append("z3 4.8.12 binary: inconclusive (%r)" % (x,))
    code = "import sys; sys.path.insert(0, '/verif'); import harness.C18_partitioners as m; print(m._cvc5_diff())"
    try:
        out = subprocess.run([sys.executable, "-c", code], capture_output=True, text=True, timeout=15 if tier == "quick" else 240)
        notes.append((out.stdout.strip().splitlines() or ["cvc5: no output"])[-1])
    except subprocess.TimeoutExpired:
        notes.append("cvc5 1.4: no answer within the cap (bit-blasting 72-bit multiplications) -- inconclusive diff, not part of the verdict")
    return "block-step lemma: z3 5.1 unsat; " + "; ".join(notes)


def _block_lemma_smt2():
    fdef, prelude, loop, post = ev.loop_body(pure_murmur2)
    cells, asm = _bytes(4, "b")
    arr = ev.SymArray(cells)
    H = z3.BitVec("H", W)
    e = ev.Evaluator()
    env = {"byte_array": arr, "seed": SEED}
    e.block(prelude, env)
    env["h"] = H
    env[loop.target.id] = 0
    e.block(loop.body, env)
    goal = z3.And(z3.ULT(env["h"], 2**32), _to32(env["h"]) == j_block(_to32(H), [_to32(c) & 0xFF for c in cells]))
    s = z3.Solver()
    s.add(*asm)
    s.add(z3.ULT(H, 2**32))
    s.add(z3.Not(goal))
    return "(set-logic QF_BV)\n" + s.to_smt2().replace("(check-sat)", "")


def _cvc5_diff():
    try:
        import cvc5
    except Exception as e:  # noqa
        return "cvc5 python module unavailable: %r" % (e,)
    smt2 = _block_lemma_smt2() + "\n(check-sat)\n"
    slv = cvc5.Solver()
    parser = cvc5.InputParser(slv)
    parser.setStringInput(cvc5.InputLanguage.SMT_LIB_2_6, smt2, "q")
    sm = parser.getSymbolManager()
    res = None
    while True:
        cmd = parser.nextCommand()
        if cmd.isNull():
            break
        out = cmd.invoke(slv, sm)
        if "sat" in str(out):
            res = str(out).strip()
    return "cvc5 1.4: %s" % res


def replay(path):
    import json

    from vlib.chplug import enginea

    v = json.load(open(path))
    if v.get("engine_c"):
        ok, data = replay_c(v["witness"] or {}, v["sig"])
        print("witness bytes", list(data), "python", pure_murmur2(bytearray(data)), "java", java_murmur2_int(data))
        if ok:
            print("REPRODUCED property=C18 label=%s" % v["label"])
            return 1
        print("not reproduced on the whole function (step-level witness)")
        return 0
    if v.get("producer_rr"):
        from vlib import auxb

        return auxb.replay("harness.aux_c18_producer", v)
    return enginea.replay_file(__name__, path)


ASSUMPTIONS = [
    "Java Utils.murmur2 transcribed into 32-bit bit-vectors from the Kafka client source (signed bytes & 0xff, int wrap-around, >>>)",
    "loop-carried h cut at the back-edge: per-step lemmas for arbitrary 32-bit h and arbitrary bytes + per-length index traces compose to whole-function equivalence",
    "72-bit vectors stand for Python ints; every * + << carries a no-overflow side obligation under the step's assumptions",
    "the optional C extension murmurhash2 is not installed: the pure-Python path is what runs",
    "text keys come from a pool of 12 strings covering 1..4-byte UTF-8 encodings; byte keys are symbolic; partition lists are symbolic ascending int32 lists",
]

BOUNDS = {
    "murmur2": "every length 0..64 (quick) / 0..1024 (thorough) by composition; direct whole-function queries for lengths {0,1,2,3,4,8(,12)}; partition count n in [1, 2^31)",
    "hashed": "byte keys of length 0..4 (quick) / 0..8, 1 or 3 partitions; 12 text keys",
    "round_robin": "n <= 4 (quick) / 6 partitions, k <= 2 / 3, fixed or symbolic start, list changes between lists of 1..4 partitions",
    "outside": "the C extension; non-ascending partition lists (precondition of the property); keys longer than the composition bound",
}
