"""C08 -- Cached cluster metadata mirrors the broker's answer and self-heals when stale.

Engine B.  (1) S-step on the real KafkaClient._merge_topic_metadata / _update_brokers: a
reachable pre-cache (built by applying a first symbolic response) and a second symbolic
response; the view of the covered topics must equal the response, other topics stay, clients
of brokers missing from a full refresh are closed exactly once, addresses are updated.
(2) S-script on the real client stack over SimNet/SimCluster: produce and fetch calls while
the cluster performs symbolic faults (leader move, broker restart on a new port, broker
removal); stale routing must be invalidated and a later call must succeed at the new leader."""
import itertools

from twisted.internet.task import Clock
from twisted.python.failure import Failure

import afkak.client as client_mod
from afkak.client import KafkaClient
from afkak.brokerclient import _KafkaBrokerClient
from afkak.common import (
    BrokerMetadata,
    FetchRequest,
    Message,
    PartitionMetadata,
    ProduceRequest,
    TopicAndPartition,
    TopicMetadata,
    UnknownTopicOrPartitionError,
)

from harness.C07_routing import _pump, _Shuffle
from vlib.sim.cluster import SimCluster
from vlib.sim.contract import fire_next_timer, next_timer
from vlib.sim.net import SimNet

ID = "C08"
ENGINE = "b"

REQUIRED_LABELS = [
    "covered-topics-mirror-the-response",
    "other-topics-untouched",
    "broker-addresses-updated",
    "brokers-missing-from-full-refresh-closed-once",
    "partial-refresh-closes-nothing",
    "stale-routing-invalidated",
    "heals-within-retry-budget",
    "view-equals-cluster-after-healing",
]

ASSUMPTIONS = [
    "TCP replaced by SimNet; brokers are SimCluster nodes (reference parser/encoder)",
    "the S-step pre-cache is produced by the real merge code from a first symbolic response (hence reachable)",
    "faults are applied between client calls; a call's metadata lookups are answered promptly by live nodes; a dead or re-addressed broker refuses connections at its old address",
    "afkak.client.random.shuffle applies a symbolically chosen permutation",
]

TOPICS = ["t", "u", "w"]


def functions():
    return [
        KafkaClient._merge_topic_metadata,
        KafkaClient._update_brokers,
        KafkaClient.reset_topic_metadata,
        KafkaClient.reset_all_metadata,
        KafkaClient._handle_responses,
        KafkaClient._send_broker_aware_request,
        KafkaClient._get_leader_for_partition,
        KafkaClient.load_metadata_for_topics,
        KafkaClient._close_brokerclients,
        _KafkaBrokerClient.updateMetadata,
        _KafkaBrokerClient._connect,
    ]


def bounds(tier):
    q = tier == "quick"
    return {
        "merge_step": "3 reachable pre-caches x one symbolic response over topics {t,u(,w)} x 0..2 partitions x broker sets {123,12,23,3} (leader none/first/last), topic errors {0,3}, re-addressed or not, full/partial",
        "self_healing": "%d faults per history from {leader move, broker restart on a new port, broker removal}; produce and fetch calls carrying t/0 alone or with a payload of another topic on another broker" % (1 if q else 2),
        "outside": "unbounded fault sequences; DNS; more than 3 brokers",
    }


def limits(tier):
    return {"validate": "all" if tier == "quick" else 4, "max_seconds": 900 if tier == "quick" else 3400, "split_depth": 4}


def jobs(tier):
    q = tier == "quick"
    out = [{"kind": "merge", "ntopics": 2 if q else 3}]
    for api in ("produce", "fetch", "produce0"):
        out.append({"kind": "heal", "api": api, "faults": 1 if q else 2})
    out.append({"kind": "outage"})
    for api in ("produce", "fetch"):
        out.append({"kind": "multi-error", "api": api})
    return out


def _multi_error(job):
    """One batch (fail_on_error=False, as the producer sends) spanning two topics whose leaders have both moved: every topic that
    answers not-leader / unknown-partition must have its routing invalidated, not only the first one."""

    def run(ctx):
        clock = Clock()
        cl = SimCluster(clock)
        client_mod.random = _Shuffle(ctx, max_perms=1)
        for n in (1, 2):
            cl.add_broker(n)
        cl.leaders[("t", 0)] = 1
        cl.leaders[("u", 0)] = 2
        ctx.sig("multi-error api=%s" % job["api"])
        client = KafkaClient("boot:9092", reactor=clock, endpoint_factory=cl.net.endpoint_factory, timeout=5000,
                             retry_policy=lambda n_: 1.0, enable_protocol_version_discovery=False)

        def call(tps, **kw):
            res = []
            if job["api"] == "produce":
                d = client.send_produce_request([ProduceRequest(t, p, [Message(0, 0, None, b"x")]) for (t, p) in tps], acks=1, **kw)
            else:
                d = client.send_fetch_request([FetchRequest(t, p, 0, 1000) for (t, p) in tps], max_wait_time=100, **kw)
            d.addBoth(res.append)
            hold = []
            for _ in range(60):
                if res:
                    break
                _pump(ctx, cl, clock, lambda n: "answer", res, hold=hold)
                for x in list(hold):
                    if not x.answered and not x.transport.closed:
                        cl.answer(x)
                    hold.remove(x)
                if res or next_timer(clock) is None:
                    break
                fire_next_timer(clock)
            return res

        order = [[("t", 0), ("u", 0)], [("u", 0), ("t", 0)]][ctx.choose("order", 2)]
        r = call(order)
        ctx.check(len(r) == 1 and not isinstance(r[0], Failure), "first-call-succeeds", repr(r))
        # both leaders move (swap); the old leaders stay up and answer NOT_LEADER
        cl.leaders[("t", 0)] = 2
        cl.leaders[("u", 0)] = 1
        r = call(order, fail_on_error=False)
        ctx.check(len(r) == 1 and not isinstance(r[0], Failure), "call-resolves", "batch with fail_on_error=False: %r" % (r,))
        if len(r) == 1 and not isinstance(r[0], Failure):
            errs = {(x.topic, x.partition): x.error for x in r[0]}
            ctx.log("batch-answer", sorted(errs.items()))
            for tp, e in sorted(errs.items()):
                if e in (3, 6):
                    stale = client.topics_to_brokers.get(TopicAndPartition(*tp))
                    cur = cl.leaders[tp]
                    ctx.check(stale is None or stale.node_id == cur, "stale-routing-invalidated",
                              "%s/%d answered error %d but the cache still routes it to %r (leader is %d)" % (tp[0], tp[1], e, stale, cur))
        for tp in order:
            r2 = call([tp])
            good = len(r2) == 1 and not isinstance(r2[0], Failure) and all(x.error == 0 for x in r2[0])
            ctx.check(good, "heals-within-retry-budget", "follow-up call for %s/%d: %r" % (tp[0], tp[1], r2))

    return run


def scenario(job):
    if job["kind"] == "multi-error":
        return _multi_error(job)
    if job["kind"] == "outage":
        return _outage(job)
    return _merge(job) if job["kind"] == "merge" else _heal(job)


def _outage(job):
    """The real Producer on the real client: the whole cluster (and the bootstrap host) is unreachable for a while, so even the
    metadata re-resolution fails; once it is back, producing must resume within the producer's retry budget."""
    from afkak.producer import Producer

    from vlib.sim.producer_e2e import KeyPartitioner

    def run(ctx):
        clock = Clock()
        cl = SimCluster(clock)
        client_mod.random = _Shuffle(ctx, max_perms=1)
        nb = 1 + ctx.choose("brokers", 2)
        for n in range(1, nb + 1):
            cl.add_broker(n)
        cl.leaders[("t", 0)] = 1
        cl.leaders[("t", 1)] = nb
        ctx.sig("outage")
        client = KafkaClient("boot:9092", reactor=clock, endpoint_factory=cl.net.endpoint_factory, timeout=2000,
                             retry_policy=lambda n_: 0.5, enable_protocol_version_discovery=False)
        producer = Producer(client, partitioner_class=KeyPartitioner, req_acks=1, max_req_attempts=10, retry_interval=1.0)
        st = {"down": False}

        def drive(res, limit_s):
            t_end = clock.seconds() + limit_s
            hold = []
            for _ in range(400):
                if res:
                    return
                for at in cl.net.pending_attempts():
                    if st["down"]:
                        at.refuse()
                _pump(ctx, cl, clock, lambda n: "answer", res, hold=hold)
                for x in list(hold):
                    if not x.answered and not x.transport.closed:
                        cl.answer(x)
                    hold.remove(x)
                if res:
                    return
                nt = next_timer(clock)
                if nt is None or nt.getTime() > t_end:
                    return
                fire_next_timer(clock)

        r0 = []
        producer.send_messages("t", key=b"0", msgs=[b"warm"]).addBoth(r0.append)
        drive(r0, 30.0)
        ctx.check(len(r0) == 1 and not isinstance(r0[0], Failure), "first-call-succeeds", repr(r0))
        # outage: every broker and the bootstrap host refuse connections, open connections drop
        st["down"] = True
        for tr in cl.net.open_transports():
            tr.drop()
        ctx.log("outage-begins")
        r1 = []
        producer.send_messages("t", key=b"0", msgs=[b"during-outage"]).addBoth(r1.append)
        outage_s = (1.0, 3.0, 6.0)[ctx.choose("outage_seconds", 3)]
        drive(r1, outage_s)
        st["down"] = False
        ctx.log("outage-ends", clock.seconds(), len(r1))
        ctx.check(not r1, "producer-keeps-retrying-through-an-outage", "after %.1f s of outage the send already gave up: %r (attempt limit 10)" % (outage_s, r1))
        drive(r1, 60.0)
        ok = len(r1) == 1 and not isinstance(r1[0], Failure)
        ctx.check(ok, "heals-within-retry-budget", "the message submitted during the outage was not delivered after the cluster came back: %r" % (r1,))
        if ok:
            ctx.check((None, b"during-outage") in [(k, v) for (k, v) in cl.logs.get(("t", 0), [])] or any(v == b"during-outage" for (_k, v) in cl.logs.get(("t", 0), [])), "view-equals-cluster-after-healing", "log of t/0: %r" % (cl.logs.get(("t", 0)),))

    return run


BROKER_SETS = [[1, 2, 3], [1, 2], [2, 3], [3]]


def _sym_response(ctx, tag, ntopics, full):
    """-> (brokers dict, topics dict) of a symbolic metadata response"""
    ids = BROKER_SETS[ctx.choose(tag + "_brokers", len(BROKER_SETS))]
    port_shift = ctx.choose(tag + "_readdress", 2) * 100
    brokers = {i: BrokerMetadata(i, "host%d" % i, 9000 + i + port_shift) for i in ids}
    topics = {}
    names = TOPICS[:ntopics]
    for t in names:
        if not full and ctx.choose(tag + "_covers", 2) == 0:
            continue
        err = (0, 3)[ctx.choose(tag + "_topic_error", 2)]
        nparts = ctx.choose(tag + "_nparts", 3)
        parts = {}
        for p in range(nparts):
            opts = [-1, ids[0], ids[-1]]
            ld = opts[ctx.choose(tag + "_leader", 3)]
            parts[p] = PartitionMetadata(t, p, 0 if ld != -1 else 5, ld, (ld,) if ld != -1 else (), (ld,) if ld != -1 else ())
        topics[t] = TopicMetadata(t, err, parts)
    return brokers, topics


def _preset(k):
    """three reachable pre-caches (applied through the real merge code as a first, full response)"""
    bm = lambda i: BrokerMetadata(i, "host%d" % i, 9000 + i)  # noqa: E731
    pm = lambda t, p, ld: PartitionMetadata(t, p, 0, ld, (ld,), (ld,))  # noqa: E731
    if k == 0:
        return {1: bm(1), 2: bm(2), 3: bm(3)}, {"t": TopicMetadata("t", 0, {0: pm("t", 0, 1), 1: pm("t", 1, 2)}), "u": TopicMetadata("u", 0, {0: pm("u", 0, 3)})}
    if k == 1:
        return {1: bm(1), 2: bm(2)}, {"t": TopicMetadata("t", 3, {}), "u": TopicMetadata("u", 0, {0: pm("u", 0, 2), 1: pm("u", 1, 2)}), "w": TopicMetadata("w", 0, {0: pm("w", 0, 1)})}
    return {3: bm(3)}, {"u": TopicMetadata("u", 0, {1: pm("u", 1, 3)})}


def _view(client, t):
    parts = client.topic_partitions.get(t)
    return {
        "error": client.topic_errors.get(t),
        "parts": None if parts is None else list(parts),
        "leaders": {p: client.topics_to_brokers.get(TopicAndPartition(t, p)) for p in (parts or [])},
        # every routing entry the cache holds for the topic, listed partition or not (a partition the topic has lost must not
        # keep a leader: _get_leader_for_partition would route to it without ever re-resolving)
        "routed": sorted(k.partition for k in client.topics_to_brokers if k.topic == t),
    }


def _merge(job):
    nt = job["ntopics"]

    def run(ctx):
        clock = Clock()
        net = SimNet()
        client = KafkaClient("boot:9092", reactor=clock, endpoint_factory=net.endpoint_factory, enable_protocol_version_discovery=False)
        ctx.sig("merge")
        b1, t1 = _preset(ctx.choose("pre_cache", 3))
        client._merge_topic_metadata(b1, t1, True)
        # connections exist to all of the known brokers, or to none
        have = sorted(b1) if ctx.choose("clients_exist", 2) == 1 else []
        bcs = {i: client._get_brokerclient(i) for i in have}
        closed = {i: 0 for i in have}
        for i, bc in bcs.items():
            orig = bc.close

            def wrap(i=i, orig=orig):
                closed[i] += 1
                return orig()

            bc.close = wrap
        before = {t: _view(client, t) for t in TOPICS}
        full = ctx.choose("full_refresh", 2) == 1
        b2, t2 = _sym_response(ctx, "r2", nt, full)
        ctx.log("merge", sorted(b1), sorted(t1), "->", sorted(b2), sorted(t2), full)
        try:
            client._merge_topic_metadata(b2, t2, full)
        except Exception as e:  # noqa
            ctx.check(False, "merge-does-not-raise-on-a-consistent-response", repr(e))
            return
        for t in TOPICS:
            v = _view(client, t)
            if t in t2:
                tm = t2[t]
                exp_parts = sorted(tm.partition_metadata) if tm.partition_metadata else None
                ok = v["error"] == tm.topic_error_code and v["parts"] == exp_parts
                if ok and exp_parts:
                    for p in exp_parts:
                        ld = tm.partition_metadata[p].leader
                        exp = None if ld == -1 else b2[ld]
                        if v["leaders"].get(p) != exp:
                            ok = False
                ctx.check(ok, "covered-topics-mirror-the-response", "topic %s: view %r, response %r" % (t, v, tm))
                extra = [p for p in v["routed"] if p not in (exp_parts or [])]
                ctx.check(not extra, "covered-topics-mirror-the-response", "topic %s: the cache still routes partitions %r which the response does not list (response %r)" % (t, extra, tm))
                ctx.check(client.metadata_error_for_topic(t) == tm.topic_error_code, "covered-topics-mirror-the-response", "metadata_error_for_topic(%s)" % t)
            else:
                ctx.check(v == before[t], "other-topics-untouched", "topic %s changed from %r to %r" % (t, before[t], v))
        for i, bm in b2.items():
            ctx.check(client._brokers.get(i) == bm, "broker-addresses-updated", "broker %d known as %r, response says %r" % (i, client._brokers.get(i), bm))
            if i in bcs and closed[i] == 0:
                ctx.check((bcs[i].host, bcs[i].port) == (bm.host, bm.port), "broker-addresses-updated", "client of broker %d still points at %s:%s" % (i, bcs[i].host, bcs[i].port))
        for i in have:
            missing = i not in b2
            if full and missing:
                ctx.check(closed[i] == 1 and i not in client.clients, "brokers-missing-from-full-refresh-closed-once", "broker %d missing from a full refresh: closed %d times, still registered=%s" % (i, closed[i], i in client.clients))
            else:
                ctx.check(closed[i] == 0 and i in client.clients, "partial-refresh-closes-nothing", "broker %d client closed %d times (full=%s, missing=%s)" % (i, closed[i], full, missing))

    return run


def _heal(job):
    api = job["api"]

    def run(ctx):
        clock = Clock()
        cl = SimCluster(clock)
        client_mod.random = _Shuffle(ctx, max_perms=2)  # identity / reversal: the order matters little for this property
        for n in (1, 2, 3):
            cl.add_broker(n)
        cl.leaders[("t", 0)] = 1
        cl.leaders[("t", 1)] = 2
        cl.leaders[("u", 0)] = 2
        # the calls carry t/0 alone, or together with a payload of another topic led by another broker (either order)
        shape = ctx.choose("payloads", 3)
        tps = [[("t", 0)], [("t", 0), ("u", 0)], [("u", 0), ("t", 0)]][shape]
        ctx.sig("heal api=%s" % api)
        client = KafkaClient("boot:9092", reactor=clock, endpoint_factory=cl.net.endpoint_factory, timeout=5000,
                             retry_policy=lambda n_: 1.0, enable_protocol_version_discovery=False)
        dead_addr = set()

        def behaviour(node):
            return "answer"

        def call():
            res = []
            if api in ("produce", "produce0"):
                d = client.send_produce_request([ProduceRequest(t, p, [Message(0, 0, None, b"x")]) for (t, p) in tps], acks=1 if api == "produce" else 0)
            else:
                d = client.send_fetch_request([FetchRequest(t, p, 0, 1000) for (t, p) in tps], max_wait_time=100)
            d.addBoth(res.append)
            hold = []
            for _ in range(80):
                if res:
                    break
                # attempts to addresses nobody listens on are refused
                for at in cl.net.pending_attempts():
                    if (at.host, at.port) in dead_addr:
                        at.refuse()
                _pump(ctx, cl, clock, behaviour, res, hold=hold)
                for x in list(hold):
                    if not x.answered and not x.transport.closed:
                        cl.answer(x)
                    hold.remove(x)
                if res:
                    break
                if next_timer(clock) is None:
                    break
                fire_next_timer(clock)
            return res

        r = call()
        ctx.check(len(r) == 1 and not isinstance(r[0], Failure), "first-call-succeeds", repr(r))
        for fi in range(job["faults"]):
            leader = cl.leaders[("t", 0)]
            others = [n for n in cl.addr if n != leader]
            # (without acknowledgements the client cannot learn of a leader move from a broker that stays up: only
            # connection-level faults are observable to it)
            kind = ctx.choose("fault", 3) if api != "produce0" else 1 + ctx.choose("fault", 2)
            if kind == 0:  # leader moves; the old leader stays up and answers NOT_LEADER
                new = others[ctx.choose("new_leader", len(others))]
                cl.leaders[("t", 0)] = new
                ctx.log("fault", "leader-move", leader, new)
            elif kind == 1:  # the leader restarts on a new port: connections drop, the old address is dead
                h, p = cl.addr[leader]
                dead_addr.add((h, p))
                cl.addr[leader] = (h, p + 1000 * (fi + 1))
                for tr in cl.net.open_transports():
                    if (tr.attempt.host, tr.attempt.port) == (h, p):
                        tr.drop()
                ctx.log("fault", "restart-new-port", leader)
            else:  # the leader is removed from the cluster; another broker takes over
                if len(cl.addr) < 2:
                    continue
                h, p = cl.addr.pop(leader)
                dead_addr.add((h, p))
                new = [n for n in cl.addr][ctx.choose("new_leader", len(cl.addr))]
                for tp, ld in list(cl.leaders.items()):
                    if ld == leader:
                        cl.leaders[tp] = new
                for tr in cl.net.open_transports():
                    if (tr.attempt.host, tr.attempt.port) == (h, p):
                        tr.drop()
                ctx.log("fault", "broker-removed", leader, new)
            # after the fault: the stale call may fail, must invalidate, and a later call must succeed
            ok = False
            def reached():
                cur_ = cl.leaders[("t", 0)]
                return len([q for q in cl.requests if q.api == 0 and q.node == cur_ and any(t == b"t" for (t, _ps) in q.q["body"]["topics"])])

            for attempt in range(4):
                n_reached = reached()
                r = call()
                good = len(r) == 1 and not isinstance(r[0], Failure) and all(x.error == 0 for x in r[0])
                if api == "produce0":
                    # nothing comes back: the call healed when its request was written to the partition's current leader
                    good = good and reached() > n_reached
                ctx.log("call", attempt, "ok" if good else ("fail" if r else "unresolved"))
                if good:
                    ok = True
                    break
                ctx.check(len(r) == 1, "call-resolves", "call %d after the fault never resolved" % attempt)
                # a failed call must have invalidated the cached route of the partition
                tp = TopicAndPartition("t", 0)
                stale = client.topics_to_brokers.get(tp)
                cur = cl.leaders[("t", 0)]
                ctx.check(
                    stale is None or (stale.node_id == cur and (stale.host, stale.port) == cl.addr[cur]),
                    "stale-routing-invalidated",
                    "after a failed call the cache still routes t/0 to %r (leader is %d at %r)" % (stale, cur, cl.addr[cur]),
                )
            ctx.check(ok, "heals-within-retry-budget", "no successful call within 4 attempts after the fault")
            if ok:
                cur = cl.leaders[("t", 0)]
                bm = client.topics_to_brokers.get(TopicAndPartition("t", 0))
                ctx.check(bm is not None and bm.node_id == cur and (bm.host, bm.port) == cl.addr[cur], "view-equals-cluster-after-healing", "cache says %r, cluster leader %d at %r" % (bm, cur, cl.addr[cur]))
                served = [q for q in cl.requests if q.api == (1 if api == "fetch" else 0) and any(t == b"t" for (t, _ps) in q.q["body"]["topics"])]
                ctx.check(served and served[-1].node == cur, "view-equals-cluster-after-healing", "the successful call for t/0 was served by %r" % (served[-1].node if served else None,))

    return run
