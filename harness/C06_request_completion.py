"""C06 -- Each request completes exactly once, with the response bearing its own id.

Engine B.  Real _KafkaBrokerClient + KafkaProtocol (+ Twisted's Int32StringReceiver) over SimNet,
and KafkaBootstrapProtocol.  The script issues requests, lets the broker answer in any order with
late / duplicate / unsolicited frames, chunks the byte stream at symbolic split points, cancels,
drops the connection and closes."""
import struct

from twisted.internet.defer import CancelledError
from twisted.internet.task import Clock
from twisted.python.failure import Failure

from afkak._protocol import KafkaBootstrapProtocol, KafkaProtocol, bootstrapFactory
from afkak.brokerclient import _KafkaBrokerClient
from afkak.common import BrokerMetadata, ClientError, DuplicateRequestError
from afkak.kafkacodec import KafkaCodec

from vlib.sim.net import SimNet, frame

ID = "C06"
ENGINE = "b"

REQUIRED_LABELS = [
    "completes-at-most-once",
    "response-bears-own-correlation-id",
    "exactly-the-addressed-request-fires",
    "frame-reassembled-exactly",
    "impossible-length-terminates-connection",
    "duplicate-in-flight-id-rejected",
    "close-fails-all-pending",
    "bootstrap-response-matches-request",
]

ASSUMPTIONS = [
    "TCP is replaced by SimNet/SimTransport (in-memory byte stream; loseConnection() becomes a pending close notification delivered by the script)",
    "Twisted's Int32StringReceiver is environment, executed concretely on the chunked byte stream",
    "correlation ids are dict keys in the real code -> they come from a small pool; what is symbolic is which id each frame bears, the split points and the event order",
    "KafkaBootstrapProtocol answers an unknown id by dropping its (single-request) connection, which fails the request pending on it -- by design and pinned by test_protocol.py; not flagged",
]


def functions():
    return [
        _KafkaBrokerClient.makeRequest,
        _KafkaBrokerClient.handleResponse,
        _KafkaBrokerClient._cancelRequest,
        _KafkaBrokerClient._sendRequest,
        _KafkaBrokerClient._sendQueued,
        _KafkaBrokerClient._connectionLost,
        _KafkaBrokerClient.close,
        _KafkaBrokerClient._connect,
        KafkaProtocol.stringReceived,
        KafkaProtocol.connectionLost,
        KafkaProtocol.lengthLimitExceeded,
        KafkaBootstrapProtocol.request,
        KafkaBootstrapProtocol.stringReceived,
        KafkaBootstrapProtocol.connectionLost,
        KafkaCodec.get_response_correlation_id,
    ]


def bounds(tier):
    q = tier == "quick"
    return {
        "script_events": 6 if q else 7,
        "requests": 3,
        "frame_ids": "each live / answered / cancelled request id, or an unknown id",
        "chunking": "whole | cut inside the length prefix | cut inside the correlation id | cut before the last byte | coalesced with a second frame",
        "length_prefixes": [2**31, 2**32 - 1],
        "outside": "TCP itself; TLS endpoints; more than 3 concurrent requests",
    }


def limits(tier):
    return {"validate": "all" if tier == "quick" else 5, "max_seconds": 900 if tier == "quick" else 3400, "split_depth": 3}


def jobs(tier):
    q = tier == "quick"
    return [
        {"kind": "broker", "K": 6 if q else 7, "noreply": False},
        {"kind": "broker", "K": 5 if q else 6, "noreply": False, "reentrant": True},
        {"kind": "broker", "K": 5 if q else 6, "noreply": True},
        {"kind": "broker", "K": 5 if q else 6, "noreply": False, "eb_cancel": True},
        {"kind": "broker", "K": 5 if q else 6, "noreply": True, "reentrant": True},
        {"kind": "bootstrap", "K": 5 if q else 6},
    ]


def scenario(job):
    if job["kind"] == "bootstrap":
        return _bootstrap(job)
    return _broker(job)


class Req:
    def __init__(self, cid, expect):
        self.cid = cid
        self.expect = expect
        self.payload = struct.pack(">hhih", 3, 0, cid, 1) + b"c" + b"rq%d" % cid
        self.res = []
        self.cancelled = False
        self.delivered = []  # payloads of frames delivered while the request was live


def _broker(job):
    K = job["K"]

    def run(ctx):
        clock = Clock()
        net = SimNet()
        bc = _KafkaBrokerClient(clock, net.endpoint_factory, BrokerMetadata(1, "h", 9092), "cid", lambda n: float(n))
        reqs = []
        st = {"closed": False, "close_d": None, "serial": 0}
        ctx.sig("broker noreply=%s reentrant=%s%s" % (job["noreply"], bool(job.get("reentrant")), " eb_cancel" if job.get("eb_cancel") else ""))

        def cur_transport():
            ts = net.open_transports()
            return ts[-1] if ts else None

        def sent_on(tr, r):
            return tr is not None and r.payload in tr.frames()

        def live(r):
            return not r.res and not r.cancelled

        def fired_now(before):
            return [r for r in reqs if len(r.res) > before.get(r.cid, 0)]

        def snapshot():
            return {r.cid: len(r.res) for r in reqs}

        def on_res(v, r):
            r.res.append(v)
            ctx.check(len(r.res) == 1, "completes-at-most-once", "request %d fired %d times" % (r.cid, len(r.res)))
            # the application may re-enter the broker client from the result callback
            if isinstance(v, Failure) and getattr(r, "eb_cancel", 0):
                # the application's failure handler cancels another request it still has outstanding
                r.eb_cancel = 0
                others = [x for x in reqs if x is not r and not x.res and not x.cancelled]
                if others:
                    x = others[0]
                    ctx.log("cancel-from-errback", r.cid, x.cid)
                    x.cancelled = True
                    st.setdefault("eb_fired", []).append(x.cid)
                    try:
                        x.d.cancel()
                    except Exception as e:  # noqa
                        ctx.check(False, "no-exception-escapes", "cancelling request %d from the failure handler of request %d: %r" % (x.cid, r.cid, e))
                    ctx.check(len(x.res) == 1 and isinstance(x.res[0], Failure) and x.res[0].check(CancelledError), "cancel-fails-with-cancelled-error", "cancelled from a failure handler: %r" % (x.res,))
            act = getattr(r, "cb_action", 0)
            if act and not isinstance(v, Failure):
                r.cb_action = 0
                try:
                    if act == 1 and not st["closed"]:
                        ctx.log("close-from-callback", r.cid)
                        st["closed"] = True
                        st["reentrant_close"] = True
                        st["rc_event"] = True
                        unfired = [x for x in reqs if not x.res]
                        st["close_d"] = []
                        bc.close().addBoth(st["close_d"].append)
                        for x in unfired:
                            if not x.cancelled:
                                ctx.check(len(x.res) == 1 and isinstance(x.res[0], Failure) and x.res[0].check(ClientError), "close-fails-all-pending", "close() from a response callback: request %d -> %r" % (x.cid, x.res))
                        ctx.check(not bc.requests, "close-fails-all-pending", "requests left in the table after close(): %r" % (list(bc.requests),))
                    elif act == 2 and not st["closed"]:
                        ctx.log("reissue-from-callback", r.cid)
                        r2 = Req(r.cid, True)
                        r2.payload = r.payload
                        r2.d = bc.makeRequest(r.cid, r.payload)  # the id is free again: its request has completed
                        r2.d.addErrback(lambda f: None)
                except Exception as e:  # noqa
                    import traceback

                    ctx.check(False, "no-exception-escapes", "re-entering the broker client from a response callback: %r %s" % (e, traceback.format_exc()[-600:]))
            return None

        def expect_fired(before, exp, what):
            if st.get("rc_event"):
                return  # a callback closed the client during this event: what close() must fail is checked in the callback
            exp = list(exp) + st.pop("eb_fired", [])
            got = sorted(r.cid for r in fired_now(before))
            ctx.check(got == sorted(exp), "exactly-the-addressed-request-fires", "%s: fired %r, expected %r" % (what, got, sorted(exp)))

        for ev in range(K):
            acts = []
            if len(reqs) < 3 and not st["closed"]:
                acts.append(0)
            if [r for r in reqs if live(r) or (r.cancelled and r.cid in bc.requests)] and not st["closed"]:
                acts.append(1)
            if net.pending_attempts():
                acts.append(2)
            tr = cur_transport()
            if tr is not None and not tr.lose_requested:
                acts += [3, 5, 6]
            if [r for r in reqs if live(r)]:
                acts.append(4)
            if net.closing_transports():
                acts.append(6) if 6 not in acts else None
            if not st["closed"]:
                acts.append(7)
            if next_timer(clock) is not None:
                acts.append(8)
            a = ctx.choose("ev", 9, enabled=sorted(set(acts)))
            st["rc_event"] = False
            before = snapshot()
            try:
                if a == 0:
                    cid = 10 + len(reqs)
                    expect = True
                    if job["noreply"] and ctx.choose("expect", 2) == 1:
                        expect = False
                    r = Req(cid, expect)
                    if job.get("reentrant") and (expect or job["noreply"]):
                        # (for a request that expects no reply the "response" callback is the one fired when it is written)
                        r.cb_action = ctx.choose("cb_action", 3 if expect else 2)
                    if job.get("eb_cancel"):
                        r.eb_cancel = ctx.choose("eb_cancel", 2)
                    reqs.append(r)
                    ctx.log("request", cid, expect)
                    r.d = d = bc.makeRequest(cid, r.payload, expectResponse=expect)
                    d.addBoth(on_res, r)
                    trn = cur_transport()
                    exp = [cid] if (not expect and trn is not None) else []  # a no-reply request completes once handed to a connection
                    expect_fired(before, exp, "new request")
                    if exp:
                        ctx.check(r.res[0] is None, "no-reply-request-completes-with-none")
                elif a == 1:
                    # an id is "in flight" while its request may still be answered: live requests, and requests cancelled after
                    # they were written (the broker will answer them; the entry stays in the table until then)
                    cands = [r for r in reqs if live(r) or (r.cancelled and r.cid in bc.requests)]
                    r = cands[ctx.choose("dup_which", len(cands))] if len(cands) > 1 else cands[0]
                    ctx.log("duplicate", r.cid, "cancelled-but-sent" if r.cancelled else "live")
                    raised = False
                    try:
                        bc.makeRequest(r.cid, r.payload)
                    except DuplicateRequestError:
                        raised = True
                    in_table = r.cid in bc.requests
                    ctx.check(raised or not in_table, "duplicate-in-flight-id-rejected", "id %d reused while in flight and accepted" % r.cid)
                    if not raised:
                        return  # an id that left the table (no-reply) may be reused; stop this path
                    expect_fired(before, [], "duplicate request")
                elif a == 2:
                    at = net.pending_attempts()[0]
                    ctx.log("connected")
                    at.establish()
                    trn = cur_transport()
                    exp = [r.cid for r in reqs if before.get(r.cid, 0) == 0 and not r.cancelled and not r.expect and sent_on(trn, r)]
                    expect_fired(before, exp, "connect")
                    for r in reqs:
                        if live(r) and r.expect:
                            ctx.check(sent_on(trn, r), "queued-requests-sent-on-connect", "request %d not written after connect" % r.cid)
                elif a == 3:
                    tr = cur_transport()
                    ids = sorted({r.cid for r in reqs if sent_on(tr, r) or r.res or r.cancelled}) + [999]
                    cid = ids[ctx.choose("frame_id", len(ids))] if len(ids) > 1 else ids[0]
                    st["serial"] += 1
                    payload = struct.pack(">i", cid) + b"resp%d#%d" % (cid, st["serial"])
                    data = frame(payload)
                    target = [r for r in reqs if r.cid == cid and live(r) and r.expect and r.cid in bc.requests]
                    mode = ctx.choose("chunking", 5)
                    ctx.log("frame", cid, mode)
                    second = None
                    if mode == 0:
                        tr.deliver(data)
                    elif mode == 1:
                        tr.deliver(data[:2])
                        expect_fired(before, [], "partial length prefix")
                        tr.deliver(data[2:])
                    elif mode == 2:
                        tr.deliver(data[:6])
                        expect_fired(before, [], "partial correlation id")
                        tr.deliver(data[6:])
                    elif mode == 3:
                        tr.deliver(data[:-1])
                        expect_fired(before, [], "frame missing its last byte")
                        tr.deliver(data[-1:])
                    else:
                        second = struct.pack(">i", 998) + b"junk"
                        tr.deliver(data + frame(second))
                    if st.get("reentrant_close") or any(getattr(x, "reissued", False) for x in reqs):
                        pass  # the callback closed the client: the other pending requests were failed by close() (checked there)
                    else:
                        expect_fired(before, [r.cid for r in target], "frame id %d" % cid)
                    for r in target:
                        if r.res:
                            v = r.res[0]
                            ok = isinstance(v, bytes)
                            ctx.check(ok and KafkaCodec.get_response_correlation_id(v) == r.cid, "response-bears-own-correlation-id", "request %d completed with %r" % (r.cid, v))
                            ctx.check(v == payload, "frame-reassembled-exactly", "request %d got %r, frame carried %r" % (r.cid, v, payload))
                elif a == 4:
                    cands = [r for r in reqs if live(r)]
                    r = cands[ctx.choose("cancel_which", len(cands))] if len(cands) > 1 else cands[0]
                    ctx.log("cancel", r.cid)
                    r.cancelled = True
                    r.d.cancel()
                    ctx.check(len(r.res) == 1 and isinstance(r.res[0], Failure) and r.res[0].check(CancelledError), "cancel-fails-with-cancelled-error", repr(r.res))
                    expect_fired(before, [r.cid], "cancel")
                elif a == 5:
                    tr = cur_transport()
                    pre = (b"\x80\x00\x00\x00", b"\xff\xff\xff\xff")[ctx.choose("badlen", 2)]
                    ctx.log("bad-length", pre)
                    tr.deliver(pre + b"\x00\x00\x00\x0a" + b"x" * 6)
                    ctx.check(tr.lose_requested, "impossible-length-terminates-connection", "length prefix %r was accepted" % (pre,))
                    expect_fired(before, [], "impossible length prefix")
                    tr.deliver(frame(struct.pack(">i", reqs[0].cid if reqs else 5) + b"late"))
                    expect_fired(before, [], "data after the connection was terminated")
                elif a == 6:
                    ts = net.closing_transports() or net.open_transports()
                    t0 = ts[0]
                    ctx.log("connection-lost")
                    t0.drop()
                    expect_fired(before, [], "connection lost")
                elif a == 7:
                    ctx.log("close")
                    st["closed"] = True
                    unfired = [r for r in reqs if not r.res]
                    st["close_d"] = []
                    bc.close().addBoth(st["close_d"].append)
                    st.pop("eb_fired", None)
                    for r in unfired:
                        okc = len(r.res) == 1 and isinstance(r.res[0], Failure) and r.res[0].check(ClientError)
                        if r.cancelled:
                            continue
                        ctx.check(okc, "close-fails-all-pending", "request %d after close(): %r" % (r.cid, r.res))
                    raised = None
                    try:
                        d2 = bc.makeRequest(77, b"\x00\x03\x00\x00\x00\x00\x00\x4d\x00\x00")
                        r2 = []
                        d2.addBoth(r2.append)
                        raised = r2
                    except Exception as e:  # noqa
                        raised = [Failure(e)]
                    ctx.check(raised and isinstance(raised[0], Failure) and raised[0].check(ClientError), "request-after-close-fails", repr(raised))
                else:
                    ctx.log("timer", fire_next_timer(clock))
                    expect_fired(before, [], "timer")
            except Exception as e:  # noqa
                import traceback

                ctx.check(False, "no-exception-escapes", "%r %s" % (e, traceback.format_exc()[-800:]))
                return
        ctx.log("end", [(r.cid, len(r.res)) for r in reqs])

    return run


def _deferreds(bc, r):
    """the Deferred makeRequest returned for r (kept on the _RequestState while the request is in the table)"""
    t = bc.requests.get(r.cid)
    if t is not None:
        return [t.d]
    return []


def _bootstrap(job):
    K = job["K"]

    def run(ctx):
        clock = Clock()
        net = SimNet()
        ctx.sig("bootstrap")
        ep = net.endpoint_factory(clock, "boot", 9092)
        got = []
        ep.connect(bootstrapFactory).addBoth(got.append)
        net.pending_attempts()[0].establish()
        proto = got[0]
        tr = net.transports[0]
        reqs = []
        serial = [0]

        def on_res(v, r):
            r.res.append(v)
            ctx.check(len(r.res) == 1, "completes-at-most-once", "bootstrap request %d fired %d times" % (r.cid, len(r.res)))

        for ev in range(K):
            acts = []
            if len(reqs) < 2:
                acts.append(0)
            if not tr.closed:
                acts += [1, 2, 3]
            a = ctx.choose("ev", 4, enabled=acts) if acts else None
            if a is None:
                break
            before = {r.cid: len(r.res) for r in reqs}
            try:
                if a == 0:
                    r = Req(20 + len(reqs), True)
                    reqs.append(r)
                    ctx.log("request", r.cid)
                    proto.request(r.payload).addBoth(on_res, r)
                    if tr.closed or tr.lose_requested:
                        pass
                elif a == 1:
                    ids = [r.cid for r in reqs] + [999]
                    cid = ids[ctx.choose("frame_id", len(ids))]
                    serial[0] += 1
                    payload = struct.pack(">i", cid) + b"boot%d#%d" % (cid, serial[0])
                    data = frame(payload)
                    mode = ctx.choose("chunking", 3)
                    ctx.log("frame", cid, mode)
                    target = [r for r in reqs if r.cid == cid and not r.res and not getattr(tr, 'poisoned', False)]
                    if mode == 0:
                        tr.deliver(data)
                    elif mode == 1:
                        tr.deliver(data[:5])
                        tr.deliver(data[5:])
                    else:
                        tr.deliver(data[:-1])
                        tr.deliver(data[-1:])
                    fired = sorted(r.cid for r in reqs if len(r.res) > before.get(r.cid, 0))
                    ctx.check(fired == sorted(r.cid for r in target), "bootstrap-response-matches-request", "frame id %d fired %r" % (cid, fired))
                    for r in target:
                        ctx.check(r.res and r.res[0] == payload, "bootstrap-response-matches-request", "request %d got %r" % (r.cid, r.res))
                    if cid == 999 and not getattr(tr, "poisoned", False):
                        ctx.check(tr.lose_requested, "bootstrap-drops-connection-on-unknown-id")
                elif a == 2:
                    pre = (b"\x80\x00\x00\x00", b"\xff\xff\xff\xff")[ctx.choose("badlen", 2)]
                    ctx.log("bad-length")
                    tr.poisoned = True  # the stream can never be re-synchronised: nothing after it may be delivered
                    tr.deliver(pre + b"zz")
                    ctx.check(tr.lose_requested, "impossible-length-terminates-connection", "bootstrap accepted %r" % (pre,))
                else:
                    ctx.log("connection-lost")
                    unfired = [r for r in reqs if not r.res]
                    tr.drop()
                    for r in unfired:
                        ctx.check(len(r.res) == 1 and isinstance(r.res[0], Failure), "bootstrap-connection-loss-fails-pending", repr(r.res))
            except Exception as e:  # noqa
                ctx.check(False, "no-exception-escapes", repr(e))
                return
        ctx.log("end", [(r.cid, len(r.res)) for r in reqs])

    return run


from vlib.sim.contract import fire_next_timer, next_timer  # noqa: E402
