"""C11 -- Every broker request is bounded by the client timeout.

Engine B with *symbolic real time*: client.timeout, the optional min_timeout, the connect delay
and every reply delay are z3 reals; the scenario always advances the Clock to the next due
instant (earliest of: next timer, connection established, next reply), so the ordering of timers
and replies is decided by the solver.  Real: KafkaClient._make_request_to_broker,
_send_bootstrap_request's addTimeout, _KafkaBrokerClient.disconnect/_cancelRequest/handleResponse."""
import struct
from fractions import Fraction

from twisted.internet.task import Clock
from twisted.python.failure import Failure

import afkak.brokerclient as bcmod
from afkak.brokerclient import _KafkaBrokerClient
from afkak.client import KafkaClient
from afkak.common import BrokerMetadata, KafkaUnavailableError, RequestTimedOutError

from vlib.sim.net import SimNet, frame
import vlib.sim.contract  # noqa: F401  (exact DelayedCall.getTime)
from vlib.symrun import sym_and, sym_max, sym_or

ID = "C11"
ENGINE = "b"

REQUIRED_LABELS = [
    "resolves-no-later-than-timeout",
    "timed-out-iff-no-reply-by-deadline",
    "timer-released-on-completion",
    "late-reply-discarded-without-side-effects",
    "disconnect-on-timeout-drops-and-resends",
    "bootstrap-request-bounded-by-timeout",
]

ASSUMPTIONS = [
    "virtual time is a real number (no float rounding): the code only adds and compares times",
    "client.timeout is injected as a symbolic attribute after construction (the constructor applies float())",
    "afkak.brokerclient.datetime.utcfromtimestamp is a pass-through (timestamps are only used in log messages); message formatting/logging are no-ops",
    "TCP replaced by SimNet; a silent broker is a reply delay of 'never'",
]


class _PassThroughDatetime:
    @staticmethod
    def utcfromtimestamp(x):
        return x


bcmod.datetime = _PassThroughDatetime


def functions():
    return [
        KafkaClient._make_request_to_broker,
        KafkaClient._send_bootstrap_request,
        KafkaClient._send_broker_unaware_request,
        _KafkaBrokerClient.disconnect,
        _KafkaBrokerClient._cancelRequest,
        _KafkaBrokerClient.handleResponse,
        _KafkaBrokerClient.makeRequest,
    ]


def bounds(tier):
    q = tier == "quick"
    return {
        "requests_sharing_a_connection": 2,
        "timeout": "SymReal in (0, 1000]",
        "min_timeout": "None or SymReal in (0, 1000]",
        "connect_delay": "SymReal >= 0 or never",
        "reply_delay": "per request SymReal >= 0 or never",
        "issue_gap": "SymReal >= 0 between requests",
        "outside": "float rounding of real clocks; more than 3 requests per connection",
    }


def limits(tier):
    return {"validate": "all", "max_seconds": 900 if tier == "quick" else 3400, "split_depth": 2}


def jobs(tier):
    q = tier == "quick"
    out = []
    for dis in (False, True):
        for mt in (False, True):
            out.append({"kind": "broker", "n": 2, "disconnect": dis, "min_timeout": mt})  # (n=3 does not finish within the thorough budget: >500 k paths per job)
    # requests that expect no reply (produce with acks=0): complete when written, time out if never written
    out.append({"kind": "broker", "n": 2, "disconnect": False, "min_timeout": False, "noreply": True})
    # an endpoint that connects before connect() returns: every request can be written the moment it is issued, also after the
    # connection was dropped on a time-out
    out.append({"kind": "broker", "n": 2, "disconnect": True, "min_timeout": False, "sync_accept": True})
    out.append({"kind": "bootstrap"})
    return out


def scenario(job):
    if job["kind"] == "bootstrap":
        return _bootstrap(job)
    return _broker(job)


def _zero(ctx):
    return 0.0 if ctx.symbolic else Fraction(0)


class Req:
    pass


def _broker(job):
    n = job["n"]

    def run(ctx):
        clock = Clock()
        clock.rightNow = _zero(ctx)
        net = SimNet()
        client = KafkaClient("boot:9092", reactor=clock, endpoint_factory=net.endpoint_factory, disconnect_on_timeout=job["disconnect"],
                             retry_policy=lambda k: 1, enable_protocol_version_discovery=False)
        T = ctx.real("timeout", 0, 1000)
        if not ctx.assume(T > 0):
            return
        client.timeout = T
        M = None
        if job["min_timeout"]:
            M = ctx.real("min_timeout", 0, 1000)
            if not ctx.assume(M > 0):
                return
        limit = T if M is None else sym_max(T, M)
        client._update_brokers([BrokerMetadata(1, "h", 9092)])
        broker = client._get_brokerclient(1)
        ctx.sig("broker disconnect=%s min_timeout=%s n=%d%s" % (job["disconnect"], job["min_timeout"], n, (" noreply" if job.get("noreply") else "") + (" sync-accept" if job.get("sync_accept") else "")))

        if job.get("sync_accept"):
            net.sync_accept = {("h", 9092)}
        connect_never = True if job.get("sync_accept") else ctx.choose("connect", 2) == 1
        cdelay = None if connect_never else ctx.real("connect_delay", 0, 1000)
        reqs = []
        ext = []  # pending external events: [time, kind, payload]

        def issue(i):
            r = Req()
            r.cid = 50 + i
            r.payload = struct.pack(">hhih", 3, 0, r.cid, 0) + b"q%d" % i
            r.res = []
            r.t_res = None
            r.issued = clock.seconds()
            r.expect = not (job.get("noreply") and ctx.choose("expect", 2) == 1)
            r.reply_never = (not r.expect) or ctx.choose("reply", 2) == 1
            r.delay = None if r.reply_never else ctx.real("reply_delay", 0, 1000)
            r.reply_at = None
            r.replied = False
            r.written = 0
            reqs.append(r)
            ctx.log("issue", r.cid, r.issued)
            d = client._make_request_to_broker(broker, r.cid, r.payload, expectResponse=r.expect, min_timeout=M)

            def on(v, r=r):
                r.res.append(v)
                r.t_res = clock.seconds()
                ctx.check(len(r.res) == 1, "completes-at-most-once")
                return None

            d.addBoth(on)
            schedule_replies()
            if job.get("sync_accept"):
                ctx.check(r.written == 1, "request-written-when-a-connection-can-be-had", "request %d issued at %s was not written although the endpoint connects at once" % (r.cid, r.issued))

        def schedule_replies():
            """a request written to the current connection gets its reply delay counted from the moment it was written"""
            tr = (net.open_transports() or [None])[-1]
            if tr is None or tr.lose_requested:
                return
            fr = tr.frames()
            for r in reqs:
                if r.payload in fr and getattr(r, "on_tr", None) is not tr:
                    r.on_tr = tr
                    r.written += 1
                    if r.res and isinstance(r.res[0], Failure) and r.t_res is not None and r.written == 1:
                        ctx.check(False, "timed-out-request-never-written-later", "request %d failed at %s and was written to a connection afterwards" % (r.cid, r.t_res))
                    if not r.reply_never and not r.replied:
                        ext.append([clock.seconds() + r.delay, "reply", (r, tr)])

        # first request at t=0, the others after symbolic gaps
        issue(0)
        for i in range(1, n):
            ext.append([clock.seconds() + ctx.real("gap", 0, 1000) if i == 1 else None, "issue", i])
        # (later issue times are fixed when the previous one happens)
        for e in ext:
            if e[1] == "issue" and e[0] is None:
                e[0] = "after-previous"
        if not connect_never:
            ext.append([clock.seconds() + cdelay, "connect", None])

        def next_timer_time():
            calls = [c for c in clock.getDelayedCalls() if c.active()]
            best = None
            for c in calls:
                t = c.getTime()
                if best is None or t < best:
                    best = t
            return best

        def pick_external():
            best = None
            for e in ext:
                if isinstance(e[0], str):
                    continue
                if best is None or e[0] < best[0]:
                    best = e
            return best

        def timers_ok(where):
            live = len([r for r in reqs if not r.res])
            active = [c for c in clock.getDelayedCalls() if c.active()]
            # back-off timers of the broker client are allowed while it is reconnecting
            allowed = live + (1 if broker.connector is not None else 0)
            ctx.check(len(active) <= allowed, "timer-released-on-completion", "%s: %d active delayed calls, %d unfinished requests" % (where, len(active), live))

        for step in range(6 * n + 6):
            tt = next_timer_time()
            e = pick_external()
            if tt is None and e is None:
                break
            take_timer = e is None or (tt is not None and tt <= e[0])
            before = {r.cid: len(r.res) for r in reqs}
            if take_timer:
                clock.advance(tt - clock.seconds())
                ctx.log("timer", clock.seconds())
                schedule_replies()
            else:
                ext.remove(e)
                dt = e[0] - clock.seconds()
                if dt > 0:
                    clock.advance(dt)  # no timer is due before e[0]: decided by the comparison above
                ctx.log(e[1], clock.seconds())
                if e[1] == "connect":
                    at = net.pending_attempts()
                    if at:
                        at[0].establish()
                        schedule_replies()
                elif e[1] == "issue":
                    issue(e[2])
                    for f in ext:
                        if f[1] == "issue" and isinstance(f[0], str):
                            f[0] = clock.seconds() + ctx.real("gap", 0, 1000)
                            break
                else:
                    r, tr = e[2]
                    if not tr.closed and not tr.lose_requested:
                        r.replied = True
                        r.reply_at = clock.seconds()
                        was_done = bool(r.res)
                        tr.deliver(frame(struct.pack(">i", r.cid) + b"ok%d" % r.cid))
                        fired = sorted(x.cid for x in reqs if len(x.res) > before[x.cid])
                        if was_done:
                            ctx.check(fired == [], "late-reply-discarded-without-side-effects", "reply after completion fired %r" % (fired,))
                        else:
                            ctx.check(fired == [r.cid], "reply-completes-its-request", "reply for %d fired %r" % (r.cid, fired))
            # verdict for every request that completed during this step
            for r in reqs:
                if len(r.res) > before.get(r.cid, 0):
                    dl = r.issued + limit
                    ctx.check(r.t_res <= dl, "resolves-no-later-than-timeout", "request %d resolved at %s, issued %s, limit %s" % (r.cid, r.t_res, r.issued, limit))
                    v = r.res[0]
                    timed_out = isinstance(v, Failure) and v.check(RequestTimedOutError) is not None
                    if timed_out:
                        ctx.check(
                            sym_and(r.t_res == dl, sym_or(r.reply_at is None, True)),
                            "timed-out-iff-no-reply-by-deadline",
                            "request %d timed out at %s but its deadline is %s" % (r.cid, r.t_res, dl),
                        )
                        ctx.check(not r.replied or r.reply_at >= dl, "timed-out-iff-no-reply-by-deadline", "request %d timed out although its reply arrived at %s" % (r.cid, r.reply_at))
                        if job["disconnect"]:
                            trs = net.transports
                            if trs and not trs[-1].closed:
                                ctx.check(trs[-1].lose_requested, "disconnect-on-timeout-drops-and-resends", "timeout did not drop the silent connection")
                    elif not r.expect:
                        ctx.check(v is None and r.written >= 1, "no-reply-request-completes-when-written", "no-reply request %d resolved with %r, written %d times" % (r.cid, v, r.written))
                    else:
                        ok = isinstance(v, bytes) and v[:4] == struct.pack(">i", r.cid)
                        ctx.check(ok, "timed-out-iff-no-reply-by-deadline", "request %d resolved with %r" % (r.cid, v))
            # with disconnect-on-timeout: complete the drop and check the resend on the new connection
            for tr in net.closing_transports():
                unanswered = [r for r in reqs if not r.res and r.cid in broker.requests]
                try:
                    tr.drop()
                except Exception as e:  # noqa
                    ctx.check(False, "disconnect-on-timeout-drops-and-resends", "connection loss after the timeout raised %r" % (e,))
                    return
                ctx.log("dropped", clock.seconds())
                at = net.pending_attempts()
                if job.get("sync_accept"):
                    # the reconnect, if any, is already established
                    ntr = (net.open_transports() or [None])[-1]
                    if unanswered:
                        ctx.check(ntr is not None, "disconnect-on-timeout-drops-and-resends", "unanswered requests remain but no new connection")
                    if ntr is not None:
                        want = [r.payload for r in unanswered]
                        ctx.check(ntr.frames() == want, "disconnect-on-timeout-drops-and-resends", "new connection carries %d frames, %d requests unanswered" % (len(ntr.frames()), len(want)))
                        schedule_replies()
                    continue
                if unanswered:
                    ctx.check(bool(at), "disconnect-on-timeout-drops-and-resends", "unanswered requests remain but no reconnect attempt")
                if at:
                    ntr = at[0].establish()
                    want = [r.payload for r in unanswered]
                    ctx.check(ntr.frames() == want, "disconnect-on-timeout-drops-and-resends", "new connection carries %d frames, %d requests unanswered" % (len(ntr.frames()), len(want)))
                    schedule_replies()
            timers_ok("after step %d" % step)
        # everything must have resolved: by reply or by timeout
        for r in reqs:
            ctx.check(len(r.res) == 1, "resolves-no-later-than-timeout", "request %d never resolved" % r.cid)
        ctx.log("end", [(r.cid, r.t_res) for r in reqs])

    return run


def _bootstrap(job):
    def run(ctx):
        clock = Clock()
        clock.rightNow = _zero(ctx)
        net = SimNet()
        client = KafkaClient("boot:9092", reactor=clock, endpoint_factory=net.endpoint_factory, enable_protocol_version_discovery=False)
        T = ctx.real("timeout", 0, 1000)
        if not ctx.assume(T > 0):
            return
        client.timeout = T
        ctx.sig("bootstrap")
        res = []
        req = struct.pack(">hhih", 3, 0, 9, 0) + struct.pack(">i", 0)
        client._send_broker_unaware_request(9, req).addBoth(lambda v: res.append((v, clock.seconds())))
        cdelay = ctx.real("connect_delay", 0, 1000)
        clock.advance(cdelay)
        at = net.pending_attempts()
        ctx.check(len(at) == 1, "bootstrap-connect-attempted")
        tr = at[0].establish()
        t_conn = clock.seconds()
        never = ctx.choose("reply", 2) == 1
        if not never:
            d = ctx.real("reply_delay", 0, 1000)
            if d < T:
                clock.advance(d)
                tr.deliver(frame(struct.pack(">i", 9) + b"meta"))
                ctx.check(len(res) == 1 and res[0][0] == struct.pack(">i", 9) + b"meta", "bootstrap-request-bounded-by-timeout", "reply before the timeout not delivered: %r" % (res,))
                ctx.check(tr.lose_requested, "bootstrap-connection-released")
                ctx.check(not [c for c in clock.getDelayedCalls() if c.active()], "timer-released-on-completion", "timer survives the bootstrap reply")
                ctx.log("end", "reply")
                return
        clock.advance(T)
        ok = len(res) == 1 and isinstance(res[0][0], Failure) and res[0][0].check(KafkaUnavailableError) is not None
        ctx.check(ok, "bootstrap-request-bounded-by-timeout", "no failure %s after connect + timeout: %r" % (clock.seconds(), res))
        if ok:
            ctx.check(res[0][1] <= t_conn + T, "bootstrap-request-bounded-by-timeout")
        ctx.check(tr.lose_requested, "bootstrap-connection-released")
        ctx.log("end", "timeout")

    return run
