"""C16 -- Generation fencing: no partition consumer outlives its group generation.  Engine B."""
from afkak._group import ConsumerGroup, Coordinator, _ConsumerProtocol
from afkak.consumer import Consumer

from vlib.sim.group_world import make_scenario

ID = "C16"
ENGINE = "b"

REQUIRED_LABELS = [
    "running-consumers-belong-to-current-generation",
    "consumers-shut-down-before-rejoin",
    "one-join-sync-exchange-in-flight",
    "heartbeat-only-while-stable",
    "group-requests-carry-current-generation",
    "commit-carries-generation-and-member",
    "evicted-member-stops-consumers",
    "no-group-request-after-stop",
    "nothing-after-stop-completes",
]

ASSUMPTIONS = [
    "KafkaClient replaced by a contract client extended with the coordinator-facing calls (_get_coordinator_for_group, load_metadata_for_topics, "
    "_send_request_to_coordinator, _load_topic_partitions); every group request is answered by the scenario with ok or a group error code",
    "real Consumer objects run underneath (recorded through a subclass injected as afkak._group.Consumer); the real assignment code computes and decodes assignments",
    "generation ids are symbolic integers increasing by symbolic steps; member ids come from a pool",
    "'after stop': once stop() has been called no JoinGroup/SyncGroup/Heartbeat is issued; the shutdown commits and the LeaveGroup are allowed until the Deferred returned by stop() fires, nothing afterwards",
]


def functions():
    return [
        Coordinator.join_and_sync, Coordinator._join_and_sync, Coordinator.rejoin_after_error, Coordinator._heartbeat,
        Coordinator._handle_heartbeat_failure, Coordinator.stop, Coordinator.get_coordinator_broker, Coordinator.send_join_group_request,
        Coordinator.send_sync_group_request, ConsumerGroup.on_join_prepare, ConsumerGroup.on_join_complete, ConsumerGroup.on_group_leave,
        ConsumerGroup.shutdown_consumers, ConsumerGroup.stop_consumers, ConsumerGroup.on_consumer_error, ConsumerGroup.stop,
        _ConsumerProtocol.generate_assignments, _ConsumerProtocol.decode_assignment, Consumer.shutdown, Consumer.stop, Consumer.commit,
    ]


def bounds(tier):
    q = tier == "quick"
    return {"script_events": "6 from a fresh start, 5 after a prefix, 8 in the fault-free synchronous-consumer-failure job" if q else "7 / 6 / 9", "fault_budget": 2, "generations": "<= 3 rebalances", "prefix_states": ["fresh", "stable", "stable + heartbeat in flight", "stable + auto-commit and heartbeat in flight", "rejoining with the old heartbeat unanswered"], "partitions": 2,
            "outside": "more than 2 members / 2 partitions; real KafkaClient underneath (C07)"}


def limits(tier):
    return {"validate": 3 if tier == "quick" else 7, "max_seconds": 900 if tier == "quick" else 3400, "split_depth": 7}


def jobs(tier):
    q = tier == "quick"
    out = [
        {"K": 6 if q else 7, "faults": 2, "leader": True, "stop": True},
        {"K": 6 if q else 7, "faults": 2, "leader": False, "stop": True},
    ]
    # deep states reached by concrete prefixes, then a symbolic suffix
    for prefix, ac in (("stable", False), ("stable-hb", False), ("stable-commit-hb", True), ("rejoin-with-hb-pending", True)):
        out.append({"K": 5 if q else 6, "faults": 2, "leader": False, "stop": True, "prefix": prefix, "autocommit": ac})
    # the member is assigned partitions of two topics
    out.append({"K": 5 if q else 6, "faults": 1, "leader": False, "stop": True, "prefix": "stable-commit-hb", "autocommit": True, "two_topics": True})
    out.append({"K": 5 if q else 6, "faults": 1, "leader": False, "stop": True, "two_topics": True})
    # a consumer of the new generation fails synchronously (single attempt, committed-offset lookup refused) while the group is
    # still inside on_join_complete
    out.append({"K": 8 if q else 9, "faults": 0, "leader": False, "stop": False, "sync_offset_reject": True})
    return out


def scenario(job):
    return make_scenario(job, {"fence"})
