"""C19 -- Batching thresholds, time limit and cancellation behave as documented.  Engine B.
batch_every_n and batch_every_b are SymInt: the threshold comparisons in the real
Producer._check_send_batch are solver decisions, i.e. 'for all threshold settings'."""
from afkak.common import CODEC_NONE
from afkak.producer import Producer

from vlib.sim.producer_world import make_scenario

ID = "C19"
ENGINE = "b"

REQUIRED_LABELS = [
    "waiting-counts-equal-queue-contents",
    "dispatch-at-first-moment-threshold-met",
    "no-message-waits-longer-than-one-period",
    "cancelled-before-dispatch-never-transmitted",
    "cancel-fails-the-send-at-once",
    "stop-fails-every-outstanding-send-with-cancellation",
    "one-produce-request-in-flight",
    "fires-exactly-once",
]

ASSUMPTIONS = [
    "KafkaClient replaced by ContractClient (see C01)",
    "batch_every_n / batch_every_b are symbolic integers passed through the constructor; batch_every_t is concrete (0 or 10 s)",
    "message sizes come from the pool {1, 2, 7 bytes, null}; 'queued' is read from Producer._batch_reqs and the two waiting counters",
    "reactor = twisted Clock stepped to the next due timer; logging disabled",
]


def functions():
    return [
        Producer.__init__,
        Producer.send_messages,
        Producer._check_send_batch,
        Producer._send_batch,
        Producer._cancel_send_messages,
        Producer._send_requests,
        Producer._complete_batch_send,
        Producer.stop,
        Producer._cancel_outstanding,
    ]


def bounds(tier):
    q = tier == "quick"
    return {
        "batch_every_n": "SymInt in [0,6]",
        "batch_every_b": "SymInt in [0,16]",
        "batch_every_t": [0, 10],
        "script_events": "5 (4 with the second, metadata-less topic)",
        "sends": 3,
        "fault_budget": 0 if q else 1,
        "message_variants": 2,
        "outside": "thresholds above 6 messages / 16 bytes (the comparisons are linear, larger values add no new branch); wall-clock time",
    }


def limits(tier):
    return {"validate": 5 if tier == "quick" else 11, "max_seconds": 900 if tier == "quick" else 3400, "split_depth": 4}


def jobs(tier):
    q = tier == "quick"
    out = []
    for bt in (0, 10):
        for two in (False, True):
            out.append(
                {
                    "acks": 1,
                    "batch": True,
                    "sym_thresholds": (6, 16),
                    "batch_t": bt,
                    "codec": CODEC_NONE,
                    "api": 0,
                    "K": (4 if two else 5),
                    "sends": 3,
                    "faults": 0 if q else 1,
                    "max_attempts": 2,
                    "sym_attempts": False,
                    "two_topics": two,
                    "cancel": True,
                    "stop": True,
                    "variants": 2,
                    "errcodes": 1,
                }
            )
    # re-entrancy: the client may answer before send_produce_request() returns, and the application may submit a new
    # send from a result handler -- i.e. while the producer is still inside its own dispatch
    for bt in (0, 10):
        out.append({"acks": 1, "batch": True, "sym_thresholds": (6, 16), "batch_t": bt, "codec": CODEC_NONE, "api": 0,
                    "K": 4, "sends": 3, "faults": 0 if q else 1, "max_attempts": 2, "sym_attempts": False, "two_topics": False,
                    "cancel": True, "stop": False, "variants": 2, "errcodes": 1, "sync": "any", "sync_budget": 1, "resend": True})
    return out


def scenario(job):
    return make_scenario(job, {"batch"})
