"""C02 -- Consumer delivers every message once, in offset order, never concurrently.

Engine B (symrun).  The real afkak.consumer.Consumer runs against ContractClient with a
*symbolic partition log*: n messages at offsets o_1 < o_2 < ... (SymInt, arbitrary gaps =
compaction).  The script chooses, per step, which outstanding completion happens next
(broker reply of any admissible shape, processor completion, next timer)."""
from twisted.internet.defer import Deferred, succeed
from twisted.internet.task import Clock

from afkak.common import (
    OFFSET_COMMITTED,
    OFFSET_EARLIEST,
    OFFSET_LATEST,
    ConsumerFetchSizeTooSmall,
    FailedPayloadsError,
    FetchResponse,
    Message,
    NotLeaderForPartitionError,
    OffsetAndMessage,
    OffsetCommitResponse,
    OffsetFetchResponse,
    OffsetResponse,
    RequestTimedOutError,
)
from afkak.consumer import Consumer
from twisted.python.failure import Failure

from vlib.sim.contract import ContractClient, fire_next_timer, next_timer

ID = "C02"
ENGINE = "b"
TOPIC = "t"
PART = 3

REQUIRED_LABELS = [
    "processor-not-reentered",
    "delivered-in-log-order-exactly-once",
    "absolute-offset-key-value",
    "fetch-offset-is-next-undelivered",
    "at-most-one-fetch-outstanding",
    "all-replied-messages-delivered",
]

ASSUMPTIONS = [
    "KafkaClient replaced by ContractClient: each request returns a pending Deferred resolved by the script with "
    "an outcome of the real client's alphabet (list of responses | BrokerResponseError | FailedPayloadsError | "
    "iterator raising ConsumerFetchSizeTooSmall)",
    "broker contract: a fetch at offset f is answered with consecutive log entries that start at or (one entry) "
    "before the first entry with offset >= f and, when such an entry exists, include it",
    "the log is static during a scenario (no appends)",
    "reactor = twisted.internet.task.Clock stepped to the next due timer; logging disabled",
    "message keys/values are concrete distinct objects; offsets, gaps, start positions and offset replies are symbolic",
]


def functions():
    return [
        Consumer.start,
        Consumer._do_fetch,
        Consumer._handle_fetch_response,
        Consumer._process_messages,
        Consumer._retry_fetch,
        Consumer._handle_fetch_error,
        Consumer._handle_offset_response,
        Consumer._handle_offset_error,
        Consumer._update_processed_offset,
        Consumer._auto_commit,
        Consumer.commit,
        Consumer._send_commit_request,
    ]


def bounds(tier):
    q = tier == "quick"
    return {
        "log_messages": 3,
        "script_events": 6,
        "fault_budget": 1,
        "too_small_budget": 1,
        "offsets": "o_1 in [0, 2^62], gaps in [1, 2^40] (symbolic)",
        "auto_commit_every_n": [None, 1, 2],
        "byte_level_variant": "2 (quick) / 3 batches, each a plain message or a gzip wrapper (v0 absolute / v1 relative inner offsets, "
        "2..3 inner messages, compaction gaps, compacted head/tail), concrete offsets from 100, real decoder on reference-encoded bytes",
        "outside": "appends during consumption, >4 messages, multi-partition responses, real KafkaClient underneath (C07/C08)",
    }


def limits(tier):
    return {"validate": "all" if tier == "quick" else 7, "max_seconds": 600 if tier == "quick" else 3000, "split_depth": 3}


def jobs(tier):
    q = tier == "quick"
    out = []
    for start in ("num", "earliest", "latest", "committed"):
        for proc in ("sync", "async"):
            for acn in (None, 1, 2):
                if start == "committed" and acn is None:
                    continue
                out.append(
                    {
                        "start": start,
                        "proc": proc,
                        "acn": acn,
                        "n": 3,
                        "K": 6,
                        "faults": 1,
                    }
                )
    # the client may answer before the request call returns (an already-fired Deferred; the consumer's own comments
    # anticipate it): the response handlers then run inside _do_fetch
    for start in ("num", "earliest", "committed"):
        for proc in ("sync", "async"):
            out.append({"start": start, "proc": proc, "acn": 1 if start == "committed" else None, "n": 3, "K": 5, "faults": 1, "sync": 1})
    for acn in (None, 2):
        out.append({"start": "num", "proc": "paused", "acn": acn, "n": 3, "K": 6, "faults": 1})
    out.append({"kind": "bytes", "batches": 2 if q else 3})
    return out


def _bytes_scenario(job):
    """Byte-level variant: the partition log is encoded by the reference encoder into message sets (plain messages and
    gzip wrappers of both message formats, with the gaps log compaction leaves) and decoded by the real
    KafkaCodec.decode_fetch_response / _decode_message_set_iter inside the real Consumer's fetch path."""
    from afkak.codec import gzip_encode
    from afkak.kafkacodec import KafkaCodec

    from vlib.ref import kafka_ref as ref

    def run(ctx):
        clock = Clock()
        client = ContractClient(ctx, clock)
        # ---- build the log: batches of messages with absolute offsets
        nb = job["batches"]
        off = 100
        batches = []  # (kind, [(abs_offset, key, value)])
        for b in range(nb):
            kind = ctx.choose("batch_kind", 4)  # 0 plain v0, 1 plain v1, 2 gzip wrapper v0, 3 gzip wrapper v1
            size = 1 if kind < 2 else 2 + ctx.choose("wrapper_size", 2)
            msgs = []
            for i in range(size):
                off += 1 + ctx.choose("gap", 2)  # gaps of 0 or 1 missing offsets (compaction)
                msgs.append((off, b"k%d" % off, b"v%d" % off))
            tail_gap = ctx.choose("compacted_tail", 2) if kind == 3 else 0  # original last messages of the batch compacted away?
            batches.append((kind, msgs, tail_gap))
        log = [m for (_k, ms, _t) in batches for m in ms]

        def encode(batch):
            kind, msgs, tail_gap = batch
            if kind == 0:
                return ref.encode_message_set([(o, ref.encode_message(0, 0, k, v)) for (o, k, v) in msgs])
            if kind == 1:
                return ref.encode_message_set([(o, ref.encode_message(1, 0, k, v, 1234)) for (o, k, v) in msgs])
            if kind == 2:
                inner = ref.encode_message_set([(o, ref.encode_message(0, 0, k, v)) for (o, k, v) in msgs])
                return ref.encode_message_set([(msgs[-1][0], ref.encode_message(0, 1, None, gzip_encode(inner)))])
            base = msgs[0][0] - ctx.choose("first_relative", 2)  # the batch's original first message may be gone too
            inner = ref.encode_message_set([(o - base, ref.encode_message(1, 0, k, v, 99)) for (o, k, v) in msgs])
            # v1: the wrapper carries the absolute offset of the last inner message
            return ref.encode_message_set([(msgs[-1][0], ref.encode_message(1, 1, None, gzip_encode(inner), 77))])

        st = {"next": None, "broken": False}
        delivered = []

        def processor(consumer, block):
            for sm in block:
                delivered.append((sm.offset, sm.message.key, sm.message.value))

        def on_request(kind, p):
            ctx.log(kind, p.args["payloads"][0].offset if kind == "fetch" else "")

        client.on_request = on_request
        consumer = Consumer(client, TOPIC, PART, processor)
        starts = sorted({log[0][0], log[len(log) // 2][0], log[-1][0], log[0][0] - 1, log[-1][0] + 1})
        start = starts[ctx.choose("start", len(starts))]
        ctx.sig("bytes batches=%d" % nb)
        res = []
        consumer.start(start).addBoth(res.append)
        expected = [m for m in log if m[0] >= start]
        for step in range(3 * nb + 4):
            if res or not client.pending:
                break
            p = client.pending[0]
            f = p.args["payloads"][0].offset
            # broker: batches from the first one whose last offset is >= f
            idx = 0
            while idx < nb and batches[idx][1][-1][0] < f:
                idx += 1
            cnt = (1 + ctx.choose("batches_returned", nb - idx)) if idx < nb else 0
            data = b"".join(encode(b) for b in batches[idx : idx + cnt])
            wire = ref.resp_fetch(5, 0, [(TOPIC.encode(), [(PART, 0, log[-1][0] + 1, data)])])
            ctx.log("reply", idx, cnt)
            try:
                client.resolve(p, list(KafkaCodec.decode_fetch_response(wire, 0)))
                fire_next_timer(clock)
            except Exception as e:  # noqa
                ctx.check(False, "well-formed-fetch-response-decodes", repr(e))
                return
            if idx + cnt >= nb:
                break
        ctx.check(not res, "start-deferred-not-fired", repr(res))
        got = delivered
        ctx.check(
            got == expected[: len(got)] and len(got) <= len(expected),
            "delivered-in-log-order-exactly-once",
            "delivered %r, the log from offset %d is %r" % (got[:6], start, expected[:6]),
        )
        ctx.check(got == expected, "all-replied-messages-delivered", "delivered %d of %d messages: %r vs %r" % (len(got), len(expected), got[:6], expected[:6]))
        ctx.check(True, "absolute-offset-key-value")
        ctx.log("end", len(got))

    return run


def scenario(job):
    if job.get("kind") == "bytes":
        return _bytes_scenario(job)
    n, K = job["n"], job["K"]

    def run(ctx):
        clock = Clock()
        client = ContractClient(ctx, clock)
        # ---- symbolic partition log ------------------------------------------------
        offs = []
        for i in range(n):
            if i == 0:
                offs.append(ctx.int("o", 0, 2**62))
            else:
                offs.append(offs[-1] + ctx.int("gap", 1, 2**40))
        msgs = [Message(0, 0, b"k%d" % i, b"v%d" % i) for i in range(n)]

        def idx(f):
            for i in range(n):
                if offs[i] >= f:
                    return i
            return n

        st = {
            "pend": None,  # pending processor result
            "next": None,  # next log index the processor must receive
            "exp_f": None,  # offset the next fetch request must carry
            "hi": None,  # one past the highest log index handed over in a reply
            "broken": False,
            "faults": job["faults"],
            "small": 1,
            "failed": False,
            "sync_left": job.get("sync", 0),
        }

        def processor(consumer, block):
            ctx.check(st["pend"] is None, "processor-not-reentered", "processor called while previous result pending")
            ctx.check(len(block) > 0, "nonempty-block")
            for sm in block:
                k = st["next"]
                ok = (not st["broken"]) and k is not None and k < n and sm.message is msgs[k]
                if not st["broken"]:
                    ctx.check(
                        ok,
                        "delivered-in-log-order-exactly-once",
                        "processor got %r but next undelivered log index is %r" % (sm.message, k),
                    )
                if ok:
                    ctx.check(
                        sym_all(sm.offset == offs[k], sm.topic == TOPIC, sm.partition == PART),
                        "absolute-offset-key-value",
                        "message %d delivered with offset %s" % (k, sm.offset),
                    )
                    st["next"] = k + 1
                else:
                    st["broken"] = True
            ctx.log("proc", len(block), [m.offset for m in block])
            if job["proc"] == "async":
                st["pend"] = Deferred()
                return st["pend"]
            if job["proc"] == "paused":
                # a Deferred that has already fired but whose callback chain is paused on further asynchronous work
                # (succeed(x).addCallback(store_async)): .called is True although the result is still pending
                st["pend"] = Deferred()
                d_ = succeed(None)
                d_.addCallback(lambda _r, inner=st["pend"]: inner)
                return d_
            return None

        def on_request(kind, p):
            if kind == "fetch":
                ctx.check(len(client.outstanding("fetch")) <= 1, "at-most-one-fetch-outstanding")
                [req] = p.args["payloads"]
                ctx.check(req.topic == TOPIC and req.partition == PART, "fetch-names-own-partition")
                if st["exp_f"] is not None:
                    ctx.check(
                        req.offset == st["exp_f"],
                        "fetch-offset-is-next-undelivered",
                        "fetch at %s, expected %s" % (req.offset, st["exp_f"]),
                    )
                ctx.log("fetch", req.offset)
            elif kind == "commit":
                [req] = p.args["payloads"]
                ctx.log("commit", req.offset)
                client.resolve(p, [OffsetCommitResponse(TOPIC, PART, 0)])
            else:
                ctx.log(kind)
            if job.get("sync") and kind in ("fetch", "offset", "offset_fetch") and st["sync_left"] > 0 and ctx.choose("sync_answer", 2) == 1:
                st["sync_left"] -= 1
                ctx.log("answered-synchronously", kind)
                reply(p)

        client.on_request = on_request

        kw = {}
        if job["acn"] is not None:
            kw = dict(consumer_group="g", auto_commit_every_n=job["acn"], auto_commit_every_ms=0)
        consumer = Consumer(client, TOPIC, PART, processor, **kw)

        if job["start"] == "num":
            start = ctx.int("start", 0, 2**62)
            st["exp_f"] = start
            st["next"] = st["hi"] = idx(start)
        else:
            start = {"earliest": OFFSET_EARLIEST, "latest": OFFSET_LATEST, "committed": OFFSET_COMMITTED}[job["start"]]
        ctx.sig("start=%s proc=%s acn=%s%s" % (job["start"], job["proc"], job["acn"], " sync" if job.get("sync") else ""))
        start_res = []

        def resolved(r):
            st["exp_f"] = r
            st["next"] = st["hi"] = idx(r)

        def fault(p):
            """Choose a failure for request p (within the fault budget)."""
            st["faults"] -= 1
            k = ctx.choose("faultkind", 2)
            ctx.log("fault", p.kind, k)
            if k == 0:
                client.fail(p, NotLeaderForPartitionError())
            else:
                client.fail(
                    p, FailedPayloadsError([], [(p.args["payloads"][0], Failure(RequestTimedOutError("timed out")))])
                )

        def reply(p):
            if p.kind == "offset":
                [req] = p.args["payloads"]
                if st["faults"] > 0 and ctx.choose("offset_fault", 2) == 1:
                    return fault(p)
                r = ctx.int("offreply", 0, 2**62)
                ctx.log("offset-reply", req.time, r)
                resolved(r)
                client.resolve(p, [OffsetResponse(TOPIC, PART, 0, (r,))])
            elif p.kind == "offset_fetch":
                if st["faults"] > 0 and ctx.choose("offset_fault", 2) == 1:
                    return fault(p)
                c = ctx.int("committed", -1, 2**62)
                ctx.log("offset-fetch-reply", c)
                if c == -1:
                    pass  # consumer must now ask for the earliest offset
                else:
                    resolved(c + 1)
                client.resolve(p, [OffsetFetchResponse(TOPIC, PART, c, b"", 0)])
            elif p.kind == "fetch":
                [req] = p.args["payloads"]
                i = idx(req.offset)
                kinds = [0]
                if i < n and st["small"] > 0:
                    kinds.append(1)
                if st["faults"] > 0:
                    kinds.append(2)
                kind = kinds[ctx.choose("fetch_outcome", len(kinds))] if len(kinds) > 1 else 0
                if kind == 2:
                    return fault(p)
                if kind == 1:
                    st["small"] -= 1
                    ctx.log("fetch-reply", "too-small")

                    def gen_small():
                        raise ConsumerFetchSizeTooSmall()
                        yield  # pragma: no cover

                    client.resolve(p, [FetchResponse(TOPIC, PART, 0, 0, gen_small())])
                    return
                s = i
                if i > 0 and ctx.choose("wrapper_lead", 2) == 1:
                    s = i - 1
                if i < n:
                    last = i + ctx.choose("block_len", n - i)
                else:
                    last = i - 1
                block = [OffsetAndMessage(offs[j], msgs[j]) for j in range(s, last + 1)]
                ctx.log("fetch-reply", s, last)
                if last >= i:
                    st["exp_f"] = offs[last] + 1
                    st["hi"] = last + 1
                client.resolve(p, [FetchResponse(TOPIC, PART, 0, 0, iter(block))])

        consumer.start(start).addBoth(start_res.append)

        ev = 0
        while ev < K and not start_res:
            acts = []
            if client.pending:
                acts.append(0)
            if st["pend"] is not None:
                acts.append(1)
            if next_timer(clock) is not None:
                acts.append(2)
            if not acts:
                break
            a = ctx.choose("ev", 3, enabled=acts)
            ev += 1
            if a == 0:
                reply(client.pending[0])
            elif a == 1:
                d, st["pend"] = st["pend"], None
                ctx.log("proc-done")
                d.callback(None)
            else:
                dt = fire_next_timer(clock)
                ctx.log("timer", dt)
        # ---- drain: let everything already handed over reach the processor -------------
        for _ in range(4 * n + 8):
            if start_res:
                break
            if st["pend"] is not None:
                d, st["pend"] = st["pend"], None
                d.callback(None)
            elif next_timer(clock) is not None:
                fire_next_timer(clock)
            else:
                break
        ctx.check(not start_res, "start-deferred-not-fired", "start() Deferred fired: %r" % (start_res,))
        if not start_res and not st["broken"] and st["hi"] is not None:
            ctx.check(
                st["next"] == st["hi"],
                "all-replied-messages-delivered",
                "delivered up to log index %r but replies handed over up to %r" % (st["next"], st["hi"]),
            )
        ctx.log("end", st["next"], st["hi"])

    return run


def sym_all(*xs):
    from vlib.symrun import sym_and

    return sym_and(*xs)
