"""C20 -- Closing the client fails everything pending and releases every connection.

Engine B.  The real KafkaClient stack over SimNet/SimCluster.  A catalogue of client states is
reached by concrete prefixes; then close() is called and every order of the connection-closed
notifications, late connects, late replies and timer firings that follow is explored."""
from twisted.internet.task import Clock
from twisted.python.failure import Failure

import afkak.client as client_mod
from afkak.brokerclient import _KafkaBrokerClient
from afkak.client import KafkaClient
from afkak.common import FetchRequest, Message, ProduceRequest

from harness.C07_routing import _pump, _Shuffle
from vlib.sim.cluster import SimCluster
from vlib.sim.contract import fire_next_timer, next_timer

ID = "C20"
ENGINE = "b"

STATES = [
    "idle-connected",
    "bootstrap-connecting",
    "bootstrap-request-in-flight",
    "broker-connecting",
    "broker-backing-off",
    "broker-backing-off-after-immediate-failure",
    "requests-in-flight",
    "refresh-closing-one-broker",
    "refresh-closing-two-brokers",
    "refresh-closing-every-live-broker",
    "metadata-load-via-broker",
    "metadata-load-via-only-broker",
]

REQUIRED_LABELS = [
    "pending-operations-fail-at-once",
    "new-operations-fail-after-close",
    "no-connection-attempt-after-close",
    "nothing-written-after-close",
    "all-connections-closed",
    "close-deferred-fires-once-after-last-connection-gone",
    "metadata-cleared",
]

ASSUMPTIONS = [
    "TCP replaced by SimNet; brokers are SimCluster nodes; loseConnection() becomes a pending close notification the script delivers in any order",
    "states are reached by concrete prefixes on the real client; the suffix after close() is symbolic",
    "'fails at once' is read as: the operation's Deferred has fired with a failure by the time close() returns",
]


def functions():
    return [
        KafkaClient.close,
        KafkaClient._close_brokerclients,
        KafkaClient._get_brokerclient,
        KafkaClient._send_broker_unaware_request,
        KafkaClient._send_bootstrap_request,
        KafkaClient._update_brokers,
        KafkaClient.reset_all_metadata,
        _KafkaBrokerClient.close,
        _KafkaBrokerClient._connectionLost,
    ]


def bounds(tier):
    q = tier == "quick"
    return {"states": STATES, "suffix_events": 6 if q else 8, "brokers": 3, "outside": "more than 3 brokers; TLS"}


def limits(tier):
    return {"validate": "all", "max_seconds": 900 if tier == "quick" else 3400, "split_depth": 2}


def jobs(tier):
    q = tier == "quick"
    return [{"state": s, "K": 6 if q else 8} for s in STATES]


def scenario(job):
    state, K = job["state"], job["K"]

    def run(ctx):
        clock = Clock()
        cl = SimCluster(clock)
        client_mod.random = _Shuffle(ctx, max_perms=1)
        for n in (1, 2, 3):
            cl.add_broker(n)
        cl.leaders[("t", 0)] = 1
        cl.leaders[("t", 1)] = 2
        cl.leaders[("t", 2)] = 3
        client = KafkaClient("boot:9092", reactor=clock, endpoint_factory=cl.net.endpoint_factory, timeout=10000,
                             retry_policy=lambda n_: 2.0, enable_protocol_version_discovery=False)
        ctx.sig("state=%s" % state)
        ops = []  # [(name, result list)]

        def op(name, d):
            r = []
            d.addBoth(r.append)
            ops.append((name, r))
            return r

        def settle(results=None, hold=None):
            _pump(ctx, cl, clock, lambda n: "answer", results if results is not None else [], hold=hold if hold is not None else [])

        def answer_all(hold):
            for x in list(hold):
                if not x.answered and not x.transport.closed:
                    cl.answer(x)
                hold.remove(x)

        def produce(tps):
            return client.send_produce_request([ProduceRequest(t, p, [Message(0, 0, None, b"m")]) for (t, p) in tps], acks=1)

        def warm(tps):
            """load metadata and connect to the leaders of tps with one successful call"""
            r = op("warm", produce(tps))
            hold = []
            for _ in range(10):
                settle(r, hold)
                answer_all(hold)
                if r:
                    break
            ctx.check(len(r) == 1 and not isinstance(r[0], Failure), "prefix-ok", repr(r))
            ops.pop()

        held = []
        # ------------------------------------------------------------------ prefixes
        if state == "idle-connected":
            warm([("t", 0), ("t", 1)])
        elif state == "bootstrap-connecting":
            op("metadata", client.load_metadata_for_topics("t"))
        elif state == "bootstrap-request-in-flight":
            op("metadata", client.load_metadata_for_topics("t"))
            for at in cl.net.pending_attempts():
                at.establish()
        elif state == "broker-connecting":
            r = op("warm-meta", client.load_metadata_for_topics("t"))
            settle(r)
            ops.pop()
            op("produce", produce([("t", 0), ("t", 1)]))
        elif state == "broker-backing-off":
            r = op("warm-meta", client.load_metadata_for_topics("t"))
            settle(r)
            ops.pop()
            op("produce", produce([("t", 0)]))
            for at in cl.net.pending_attempts():
                at.refuse()
        elif state == "broker-backing-off-after-immediate-failure":
            # the endpoint's connect() fails before it returns, so the broker client goes straight into its back-off
            r = op("warm-meta", client.load_metadata_for_topics("t"))
            settle(r)
            ops.pop()
            cl.net.sync_refuse.add(cl.addr[1])
            op("produce", produce([("t", 0)]))
            ctx.check(not cl.net.pending_attempts() and next_timer(clock) is not None, "prefix-ok", "not backing off")
        elif state == "requests-in-flight":
            warm([("t", 0), ("t", 1), ("t", 2)])
            op("produce", produce([("t", 0), ("t", 1), ("t", 2)]))
            op("fetch", client.send_fetch_request([FetchRequest("t", 1, 0, 100)], max_wait_time=100))
        elif state in ("refresh-closing-one-broker", "refresh-closing-two-brokers"):
            warm([("t", 0), ("t", 1), ("t", 2)])
            op("fetch", client.send_fetch_request([FetchRequest("t", 2, 0, 100)], max_wait_time=100))
            # a full refresh that no longer lists broker 1: its client is closed, the connection is still going down
            h1, p1 = cl.addr.pop(1)
            cl.leaders[("t", 0)] = 3
            r = op("refresh", client.load_metadata_for_topics())
            hold = []
            for _ in range(6):
                if r:
                    break
                for inb in cl.unanswered():
                    if inb.api == 3:
                        cl.answer(inb)
            ops.pop()
            if state == "refresh-closing-two-brokers":
                cl.addr.pop(2)
                cl.leaders[("t", 1)] = 3
                r = op("refresh2", client.load_metadata_for_topics())
                for _ in range(6):
                    if r:
                        break
                    for inb in cl.unanswered():
                        if inb.api == 3:
                            cl.answer(inb)
                ops.pop()
                # the first dropped broker's connection goes away before close() is called
                first = [t for t in cl.net.closing_transports() if (t.attempt.host, t.attempt.port) == (h1, p1)]
                if first and ctx.choose("first_gone_before_close", 2) == 1:
                    first[0].drop()
        elif state == "refresh-closing-every-live-broker":
            # the client is connected to broker 1 only; a full refresh (answered over that connection) no longer lists it, so its
            # broker client is closed -- still going down -- and the client holds no live broker client at all when close() is called
            warm([("t", 0)])
            cl.addr.pop(1)
            cl.leaders[("t", 0)] = 2
            r = op("refresh", client.load_metadata_for_topics())
            for _ in range(6):
                if r:
                    break
                for inb in cl.unanswered():
                    if inb.api == 3:
                        cl.answer(inb)
            ops.pop()
            ctx.check(bool(cl.net.closing_transports()), "prefix-ok", "no connection is going down")
        elif state == "metadata-load-via-only-broker":
            # the cluster has shrunk to one broker: a broker-unaware request in flight on it has no other broker to fall back to
            cl.addr.pop(2)
            cl.addr.pop(3)
            cl.leaders[("t", 1)] = 1
            cl.leaders[("t", 2)] = 1
            warm([("t", 0)])
            r = op("refresh", client.load_metadata_for_topics())
            settle(r)
            ops.pop()
            op("metadata", client.load_metadata_for_topics("zz"))
        elif state == "metadata-load-via-broker":
            warm([("t", 0)])
            op("metadata", client.load_metadata_for_topics("zz"))
            op("produce", produce([("t", 0)]))
        # ephemeral bootstrap connections that were already told to close are gone before close() is called
        # (the states that are about connections still going down are the refresh-closing ones)
        for t in cl.net.closing_transports():
            if cl.node_at(t.attempt.host, t.attempt.port) is None and (t.attempt.host, t.attempt.port) == ("boot", 9092):
                t.drop()
        ctx.log("prefix-done", len(cl.net.pending_attempts()), len(cl.unanswered()), len(cl.net.closing_transports()))

        # ------------------------------------------------------------------ close()
        n_attempts = len(cl.net.attempts)
        written = {id(t): len(t.written) for t in cl.net.transports}
        n_transports = len(cl.net.transports)
        cd = []
        try:
            client.close().addBoth(cd.append)
        except Exception as e:  # noqa
            ctx.check(False, "no-exception-from-close", repr(e))
            return
        ctx.log("close")
        for name, r in ops:
            ctx.check(len(r) == 1 and isinstance(r[0], Failure), "pending-operations-fail-at-once", "operation %r after close(): %r" % (name, r))
        ctx.check(not client.topic_partitions and not client.topics_to_brokers and not client.topic_errors and not client._group_to_coordinator, "metadata-cleared", "metadata left after close()")
        for t in cl.net.transports:
            if not t.closed:
                ctx.check(t.lose_requested, "all-connections-closed", "a connection to %s:%s is neither closed nor closing after close()" % (t.attempt.host, t.attempt.port))
        r_new = []
        try:
            produce([("t", 0)]).addBoth(r_new.append)
        except Exception as e:  # noqa
            r_new.append(Failure(e))
        r_new2 = []
        try:
            client.load_metadata_for_topics("t").addBoth(r_new2.append)
        except Exception as e:  # noqa
            r_new2.append(Failure(e))
        ctx.check(len(r_new) == 1 and isinstance(r_new[0], Failure) and len(r_new2) == 1 and isinstance(r_new2[0], Failure), "new-operations-fail-after-close", "produce: %r metadata: %r" % (r_new, r_new2))
        # every other kind of operation: group-coordinator lookups (twice: the second must not hang on the first's bookkeeping),
        # offset fetch/commit through the coordinator, fetch, list-offsets
        from afkak.common import OffsetCommitRequest, OffsetFetchRequest, OffsetRequest

        others = [
            ("load_coordinator_for_group", lambda: client.load_coordinator_for_group("g1")),
            ("load_coordinator_for_group again", lambda: client.load_coordinator_for_group("g1")),
            ("send_offset_fetch_request", lambda: client.send_offset_fetch_request("g2", [OffsetFetchRequest("t", 0)])),
            ("send_offset_commit_request", lambda: client.send_offset_commit_request("g3", [OffsetCommitRequest("t", 0, 5, -1, b"")])),
            ("send_fetch_request", lambda: client.send_fetch_request([FetchRequest("t", 0, 0, 100)], max_wait_time=100)),
            ("send_offset_request", lambda: client.send_offset_request([OffsetRequest("t", 0, -1, 1)])),
            ("load_metadata_for_topics()", lambda: client.load_metadata_for_topics()),
        ]
        for name, fn in others:
            rr = []
            try:
                fn().addBoth(rr.append)
            except Exception as e:  # noqa
                rr.append(Failure(e))
            ctx.check(len(rr) == 1 and isinstance(rr[0], Failure), "new-operations-fail-after-close", "%s after close(): %r" % (name, rr))

        def invariants(where):
            ctx.check(len(cl.net.attempts) == n_attempts, "no-connection-attempt-after-close", "%s: %d new connection attempts after close()" % (where, len(cl.net.attempts) - n_attempts))
            for t in cl.net.transports:
                base = written.get(id(t), 0)
                ctx.check(len(t.written) == base, "nothing-written-after-close", "%s: %d bytes written to %s:%s after close()" % (where, len(t.written) - base, t.attempt.host, t.attempt.port))
            still = [t for t in cl.net.transports if not t.closed]
            if still:
                ctx.check(not cd, "close-deferred-fires-once-after-last-connection-gone", "%s: close() fired while %d connection(s) are still open" % (where, len(still)))
            for name, r in ops:
                ctx.check(len(r) <= 1, "completes-at-most-once", "%s: operation %r fired %d times" % (where, name, len(r)))

        invariants("right after close")
        # ------------------------------------------------------------------ symbolic suffix
        for ev in range(K):
            acts = []
            if cl.net.closing_transports():
                acts.append(0)
            if cl.net.pending_attempts():
                acts += [1, 2]
            late = [x for x in cl.requests if not x.answered and not x.transport.closed]
            if late:
                acts.append(3)
            if next_timer(clock) is not None:
                acts.append(4)
            if not acts:
                break
            a = ctx.choose("ev", 5, enabled=acts)
            try:
                if a == 0:
                    ts = cl.net.closing_transports()
                    t = ts[ctx.choose("which_conn", len(ts))] if len(ts) > 1 else ts[0]
                    ctx.log("connection-gone", t.attempt.host)
                    t.drop()
                elif a == 1:
                    at = cl.net.pending_attempts()[0]
                    ctx.log("late-connect", at.host)
                    tr = at.establish()
                    written[id(tr)] = 0
                elif a == 2:
                    at = cl.net.pending_attempts()[0]
                    ctx.log("late-refuse", at.host)
                    at.refuse()
                elif a == 3:
                    x = late[ctx.choose("which_reply", len(late))] if len(late) > 1 else late[0]
                    ctx.log("late-reply", x.node, x.api)
                    cl.answer(x)
                else:
                    ctx.log("timer", fire_next_timer(clock))
            except Exception as e:  # noqa
                import traceback

                ctx.check(False, "no-exception-after-close", "%r %s" % (e, traceback.format_exc()[-600:]))
                return
            invariants("after event %d" % ev)
        # ------------------------------------------------------------------ drain: everything goes away
        for _ in range(30):
            if cl.net.closing_transports():
                cl.net.closing_transports()[0].drop()
            elif cl.net.pending_attempts():
                tr = cl.net.pending_attempts()[0].establish()
                written[id(tr)] = 0
            elif next_timer(clock) is not None:
                fire_next_timer(clock)
            else:
                break
            invariants("drain")
        open_left = [t for t in cl.net.transports if not t.closed]
        ctx.check(not open_left, "all-connections-closed", "%d connection(s) still open at the end: %r" % (len(open_left), [(t.attempt.host, t.lose_requested) for t in open_left]))
        ctx.check(len(cd) == 1, "close-deferred-fires-once-after-last-connection-gone", "close() Deferred fired %d times after every connection was gone" % len(cd))
        ctx.log("end", len(cd))

    return run
