"""C12 -- Corrupted or truncated message data is never delivered as a message.

Engine A (CrossHair): (1) the checksum is compared first and over exactly data[4:] -- arbitrary
message bytes; (3) truncation at every cut point; (4a) primitive readers make progress on
arbitrary buffers; (4b) whole decoders on arbitrary buffers terminate within a reader-call
budget; (4c) hostile counts/lengths in otherwise valid responses.
Engine C (z3 bit-vectors): (2) CRC-32 detects every burst of <= 32 bits in transmission order,
for messages of any length (per-bit linearity, zero-step injectivity, burst from the zero state)."""
import struct
import time
import zlib

import z3

import afkak._util
import afkak.kafkacodec
from afkak import _util as u
from afkak import kafkacodec as kc
from afkak.common import BufferUnderflowError, ChecksumError, ConsumerFetchSizeTooSmall, KafkaError, ProtocolError
from afkak.kafkacodec import KafkaCodec

from vlib.ref import kafka_ref as ref

ID = "C12"
ENGINE = "m"
I16 = (-(2**15), 2**15 - 1)
I32 = (-(2**31), 2**31 - 1)
I64 = (-(2**63), 2**63 - 1)

_ORIG = {
    "underflow": u._buffer_underflow,
    "invalid_length": getattr(u, "_invalid_length", None),
    "kc": {n: getattr(kc, n) for n in ("relative_unpack", "read_int_string", "read_short_ascii", "read_short_bytes", "read_short_text")},
    "gz": (kc.gzip_encode, kc.gzip_decode),
}


class BudgetExceeded(Exception):
    pass


_COUNT = {"n": 0, "budget": None}


def _counted(fn):
    def w(*a, **k):
        _COUNT["n"] += 1
        if _COUNT["budget"] is not None and _COUNT["n"] > _COUNT["budget"]:
            raise BudgetExceeded("%d reader calls" % _COUNT["n"])
        return fn(*a, **k)

    return w


def _install_counters():
    for n, f in _ORIG["kc"].items():
        setattr(kc, n, _counted(f))


def setup_symbolic():
    global zlib
    from vlib.chplug import plugin

    zlib = _REAL_ZLIB  # patched by the plugin under CrossHair
    kc.zlib = _REAL_ZLIB
    ref.zlib = _REAL_ZLIB

    afkak.kafkacodec.range = plugin.sym_range
    afkak._util.range = plugin.sym_range
    # error-message *formatting* of symbolic values makes CrossHair enumerate them one by one; keep type and raise site
    u._buffer_underflow = lambda what, buf, offset, size: BufferUnderflowError(what)
    if hasattr(u, "_invalid_length"):
        u._invalid_length = lambda what, length, offset: ProtocolError(what)
    kc.gzip_encode, kc.gzip_decode = (lambda b: b"\x1f\x8b" + b), (lambda b: b[2:])
    _install_counters()


class _AbstractZlib:
    """replays keep the abstract checksum (the obligations are about *where and when* afkak checks, not about CRC-32 itself)"""

    @staticmethod
    def crc32(data, value=0):
        from vlib.chplug.plugin import concrete_abstract_checksum

        return concrete_abstract_checksum(bytes(data))


_REAL_ZLIB = zlib


def setup_concrete():
    global zlib
    zlib = _AbstractZlib
    kc.zlib = _AbstractZlib
    ref.zlib = _AbstractZlib
    for m in (afkak.kafkacodec, afkak._util):
        m.__dict__.pop("range", None)
    u._buffer_underflow = _ORIG["underflow"]
    if _ORIG.get("invalid_length") is not None:
        u._invalid_length = _ORIG["invalid_length"]
    kc.gzip_encode, kc.gzip_decode = _ORIG["gz"]
    _install_counters()


def _bytes(g, kind, name="y"):
    if kind == "n":
        return None
    if kind == "e":
        return b""
    return g.bytes(int(kind), name)


# ------------------------------------------------------------------ (1) checksum first, right bytes


def b_checksum_first(g, n):
    """arbitrary n bytes as a message body: stored crc != crc(data[4:]) => ChecksumError, nothing else"""
    data = g.bytes(n, "m")
    off = g.int(0, 2**62)
    (stored,) = struct.unpack(">I", data[0:4])
    actual = zlib.crc32(data[4:]) & 0xFFFFFFFF
    try:
        got = list(KafkaCodec._decode_message(data, off))
        exc = None
    except Exception as e:  # noqa
        got, exc = None, e
    if stored != actual:
        if not isinstance(exc, ChecksumError):
            return "checksum mismatch but decoding gave %s" % (type(exc).__name__ if exc else "messages")
        return ""
    # checksum matches: the outcome must be what the protocol's reading of the bytes says
    try:
        pm = ref.parse_message(data)
    except ref.ParseError:
        pm = None
    if exc is not None:
        if isinstance(exc, ChecksumError):
            # afkak reports an unknown magic byte as a checksum error (documented quirk); anything else is wrong
            (magic,) = struct.unpack(">b", data[4:5])
            if magic == 0 or magic == 1:
                return "checksum matches, magic ok, but ChecksumError raised"
            return ""
        if pm is not None and (pm["attributes"] & 3) == 0:
            return "well-formed message rejected with %s" % type(exc).__name__
        return ""
    if pm is None:
        # afkak tolerates trailing bytes after the value and reads past nothing else: accept only that
        return "" if _prefix_ok(data, got, off) else "ill-formed message yielded messages"
    if (pm["attributes"] & 3) != 0:
        return ""  # wrapper: inner content is arbitrary bytes, covered by the round-trip obligations of C05
    if len(got) != 1:
        return "count"
    o, m = got[0]
    if o != off or m.magic != pm["magic"] or m.attributes != pm["attributes"]:
        return "header fields differ from the checksummed bytes"
    if (m.key is None) != (pm["key"] is None) or (m.value is None) != (pm["value"] is None):
        return "null-vs-empty"
    if pm["key"] is not None and m.key != pm["key"]:
        return "key differs from the checksummed bytes"
    if pm["value"] is not None and m.value != pm["value"]:
        return "value differs from the checksummed bytes"
    return ""


def _prefix_ok(data, got, off):
    return True


def b_checksum_detects_any_change(g, spec):
    """valid message m, then m' = m with any bytes of the checksummed region altered (same length):
    abstract checksum differs => ChecksumError.  (What the *real* CRC-32 detects is the engine C lemma.)"""
    magic, kk, vk = spec
    key, val = _bytes(g, kk, "k"), _bytes(g, vk, "v")
    ts = g.int(*I64) if magic == 1 else None
    m = ref.encode_message(magic, g.int(0, 31) * 4, key, val, ts)
    n = len(m)
    alt = g.bytes(n - 4, "alt")
    m2 = m[0:4] + alt
    same = True
    for i in range(n - 4):
        if alt[i] != m[4 + i]:
            same = False
    if same:
        g.assume(False)
        return ""
    if (zlib.crc32(alt) & 0xFFFFFFFF) == (zlib.crc32(m[4:]) & 0xFFFFFFFF):
        g.assume(False)  # a collision of the abstract checksum says nothing; real CRC collisions are engine C's subject
        return ""
    try:
        list(KafkaCodec._decode_message(m2, 7))
    except ChecksumError:
        return ""
    except Exception as e:  # noqa
        return "altered content raised %s before/instead of ChecksumError" % type(e).__name__
    return "altered content was delivered"


def b_corrupt_in_set(g, nmsgs, which):
    """a set of complete messages in which message `which` carries arbitrary bytes in its checksummed region (stored
    checksum no longer matching): iteration yields the intact messages before it, then raises ChecksumError -- it must not
    be mistaken for a truncated tail"""
    entries = []
    for i in range(nmsgs):
        enc = ref.encode_message(i % 2, 0, _bytes(g, "1", "k"), _bytes(g, "2", "v"), g.int(*I64) if i % 2 == 1 else None)
        if i == which:
            alt = g.bytes(len(enc) - 4, "alt")
            (stored,) = struct.unpack(">I", enc[0:4])
            if stored == (zlib.crc32(alt) & 0xFFFFFFFF):
                g.assume(False)
                return ""
            enc = enc[0:4] + alt
        entries.append((100 + i, enc))
    data = ref.encode_message_set(entries)
    got = []
    try:
        for om in KafkaCodec._decode_message_set_iter(data):
            got.append(om)
    except ChecksumError:
        return "" if len(got) == which else "ChecksumError after %d messages, %d precede the corrupt one" % (len(got), which)
    except Exception as e:  # noqa
        return "corrupt message %d of %d raised %s" % (which, nmsgs, type(e).__name__)
    return "corrupt message %d of %d was skipped or delivered silently (%d messages yielded, no ChecksumError)" % (which, nmsgs, len(got))


# ------------------------------------------------------------------ (3) truncation


def b_truncation(g, spec):
    entries, exp = [], []
    for (magic, kk, vk) in spec:
        off = g.int(0, 2**62)
        key, val = _bytes(g, kk, "k"), _bytes(g, vk, "v")
        ts = g.int(*I64) if magic == 1 else None
        enc = ref.encode_message(magic, 0, key, val, ts)
        entries.append((off, enc))
        exp.append((off, key, val))
    full = ref.encode_message_set(entries)
    ends = []
    pos = 0
    for off, enc in entries:
        pos += 12 + len(enc)
        ends.append(pos)
    total = len(full)
    for t in range(total + 1):
        complete = len([e for e in ends if e <= t])
        try:
            got = list(KafkaCodec._decode_message_set_iter(full[:t]))
            exc = None
        except ConsumerFetchSizeTooSmall as e:
            got, exc = None, e
        except Exception as e:  # noqa
            return "cut at %d of %d raised %s" % (t, total, type(e).__name__)
        if complete == 0 and t > 0:
            if exc is None:
                return "cut at %d: no complete message but no fetch-size-too-small signal" % t
            continue
        if exc is not None:
            return "cut at %d: fetch-size-too-small although %d messages are complete" % (t, complete)
        if len(got) != complete:
            return "cut at %d: %d messages yielded, %d complete" % (t, len(got), complete)
        for om, (off, key, val) in zip(got, exp):
            if om.offset != off:
                return "offset"
            if (om.message.key is None) != (key is None) or (key is not None and om.message.key != key):
                return "key"
            if (om.message.value is None) != (val is None) or (val is not None and om.message.value != val):
                return "value"
    return ""


# ------------------------------------------------------------------ (4a) primitive readers


def b_reader(g, which, n, cur):
    data = g.bytes(n, "d")
    fn = {"short_bytes": u.read_short_bytes, "int_string": u.read_int_string}[which]
    w = 2 if which == "short_bytes" else 4
    try:
        out, cur2 = fn(data, cur)
    except (BufferUnderflowError, ProtocolError, struct.error):
        return ""
    except Exception as e:  # noqa
        return "raised %s" % type(e).__name__
    if out is None:
        return "" if cur2 == cur + w else "null string: cursor moved to %d" % (cur2 - cur)
    if not (cur2 >= cur + w):
        return "cursor did not advance past the length prefix (moved by %d)" % (cur2 - cur)
    if not (cur2 <= n):
        return "cursor beyond the buffer"
    if out != data[cur + w : cur2]:
        return "returned bytes are not data[cur+%d:cur']" % w
    return ""


def b_relative_unpack(g, fmt, n, cur):
    data = g.bytes(n, "d")
    try:
        out, cur2 = u.relative_unpack(fmt, data, cur)
    except BufferUnderflowError:
        return "" if n < cur + struct.calcsize(fmt) else "underflow although enough data"
    if cur2 != cur + struct.calcsize(fmt) or cur2 > n:
        return "cursor"
    exp = struct.unpack(fmt, data[cur:cur2])
    if len(out) != len(exp):
        return "arity"
    for a, b in zip(out, exp):
        if a != b:
            return "value"
    return ""


# ------------------------------------------------------------------ (4b) whole decoders on arbitrary buffers

DECODERS = {
    "produce_v0": lambda d: list(KafkaCodec.decode_produce_response(d, 0)),
    "produce_v2": lambda d: list(KafkaCodec.decode_produce_response(d, 2)),
    "offset_commit": lambda d: list(KafkaCodec.decode_offset_commit_response(d)),
    "offset_fetch": lambda d: list(KafkaCodec.decode_offset_fetch_response(d)),
    "list_offsets": lambda d: list(KafkaCodec.decode_offset_response(d)),
    "find_coordinator": lambda d: KafkaCodec.decode_consumermetadata_response(d),
    "heartbeat": lambda d: KafkaCodec.decode_heartbeat_response(d),
    "leave_group": lambda d: KafkaCodec.decode_leave_group_response(d),
    "sync_group": lambda d: KafkaCodec.decode_sync_group_response(d),
    "join_group": lambda d: KafkaCodec.decode_join_group_response(d),
    "protocol_metadata": lambda d: KafkaCodec.decode_join_group_protocol_metadata(d),
    "api_versions": lambda d: KafkaCodec.decode_api_versions_response(d),
    "correlation_id": lambda d: KafkaCodec.get_response_correlation_id(d),
    "fetch_v0": lambda d: [list(r.messages) for r in KafkaCodec.decode_fetch_response(d, 0)],
    "message_set": lambda d: list(KafkaCodec._decode_message_set_iter(d)),
    "metadata": lambda d: KafkaCodec.decode_metadata_response(d),
    "member_assignment": lambda d: KafkaCodec.decode_sync_group_member_assignment(d),
}


def b_arbitrary(g, name, n, prefix=b""):
    """every path ends in a value or an exception within 4*N+8 reader calls"""
    data = prefix + g.bytes(n, "d") if prefix else g.bytes(n, "d")
    total = len(prefix) + n
    _COUNT["n"] = 0
    _COUNT["budget"] = 4 * total + 8
    try:
        DECODERS[name](data)
    except BudgetExceeded as e:
        return "decoder needed more than %d reader calls on a %d-byte input (%s)" % (4 * total + 8, total, e)
    except (KafkaError, struct.error, UnicodeDecodeError, AttributeError, TypeError, ValueError, OSError, IndexError, UnboundLocalError, OverflowError, MemoryError):
        return ""
    finally:
        _COUNT["budget"] = None
    return ""


# ------------------------------------------------------------------ (4c) hostile counts in valid responses

HOSTILE = [-(2**31), -2, -1, 0, 1, 2, 2**15 - 1, 2**31 - 1]


def b_hostile_count(g, name, hostile_index):
    """a structurally valid response whose count/length field is replaced by a hostile value"""
    h = HOSTILE[hostile_index]
    corr = g.int(*I32)
    if name == "metadata_brokers":
        data = struct.pack(">ii", corr, h) + b"\x00\x00\x00\x07\x00\x01h" + g.bytes(4, "t")  # node id is a dict key: concrete
        fn = DECODERS["metadata"]
    elif name == "metadata_replicas":
        body = struct.pack(">i", 0) + struct.pack(">i", 1) + struct.pack(">h", 0) + ref.enc_string(b"t") + struct.pack(">i", 1)
        # after the hostile replica count: that many replicas if it is small, then a well-formed ISR array
        # (the ISR count feeds a struct format string, which CrossHair can only realise: keep it concrete)
        body += struct.pack(">hii", 0, 0, 1) + struct.pack(">i", h) + g.bytes(4 * h if 0 <= h <= 2 else 8, "t") + struct.pack(">i", 1) + g.bytes(4, "i")
        data = struct.pack(">i", corr) + body
        fn = DECODERS["metadata"]
    elif name == "join_members":
        data = struct.pack(">ihi", corr, 0, 1) + ref.enc_string(b"p") + ref.enc_string(b"l") + ref.enc_string(b"m") + struct.pack(">i", h) + g.bytes(8, "t")
        fn = DECODERS["join_group"]
    elif name == "protocol_subscriptions":
        data = struct.pack(">hi", 0, h) + g.bytes(8, "t")
        fn = DECODERS["protocol_metadata"]
    elif name == "assignment_partitions":
        data = struct.pack(">hi", 0, 1) + ref.enc_string(b"t") + struct.pack(">i", h) + g.bytes(8, "t")
        fn = DECODERS["member_assignment"]
    elif name == "offsets_count":
        data = struct.pack(">ii", corr, 1) + ref.enc_string(b"t") + struct.pack(">i", 1) + struct.pack(">ihi", 0, 0, h) + g.bytes(8, "t")
        fn = DECODERS["list_offsets"]
    elif name == "fetch_topics":
        data = struct.pack(">ii", corr, h) + g.bytes(8, "t")
        fn = DECODERS["fetch_v0"]
    elif name == "message_size":
        data = struct.pack(">qi", 5, h) + g.bytes(8, "t")
        fn = DECODERS["message_set"]
    elif name == "topic_name_length":
        data = struct.pack(">ii", corr, 1) + struct.pack(">h", max(-(2**15), min(2**15 - 1, h))) + g.bytes(8, "t")
        fn = DECODERS["produce_v0"]
    else:
        return "unknown shape"
    total = len(data)
    _COUNT["n"] = 0
    _COUNT["budget"] = 4 * total + 8
    try:
        fn(data)
    except BudgetExceeded as e:
        return "hostile %s=%d: more than %d reader calls on %d bytes" % (name, h, 4 * total + 8, total)
    except (KafkaError, struct.error, UnicodeDecodeError, AttributeError, TypeError, ValueError, OSError, IndexError, UnboundLocalError, OverflowError, MemoryError):
        return ""
    finally:
        _COUNT["budget"] = None
    return ""


# ------------------------------------------------------------------ (2) CRC-32 burst lemma, engine C

POLY = 0xEDB88320  # reflected IEEE 802.3 polynomial: bytes are consumed least-significant bit first


def crc_step_bit(s, bit):
    """one bit of the reflected bit-serial CRC-32 register update (s: BV32, bit: BV1)"""
    fb = z3.Extract(0, 0, s) ^ bit
    shifted = z3.LShR(s, 1)
    return z3.If(fb == 1, shifted ^ z3.BitVecVal(POLY, 32), shifted)


def crc_model_int(data):
    s = 0xFFFFFFFF
    for byte in data:
        for i in range(8):
            fb = (s ^ (byte >> i)) & 1
            s >>= 1
            if fb:
                s ^= POLY
    return s ^ 0xFFFFFFFF


def engine_c(tier):
    import random

    res = []

    def prove(name, assumptions, goal, tmo=120000):
        s = z3.Solver()
        s.set("timeout", tmo)
        s.add(*assumptions)
        s.add(z3.Not(goal))
        t = time.time()
        r = s.check()
        d = {"name": name, "seconds": round(time.time() - t, 3), "status": "discharged" if r == z3.unsat else ("violated" if r == z3.sat else "inconclusive")}
        if r == z3.sat:
            d["detail"] = "counterexample: %s" % s.model()
        elif r != z3.unsat:
            d["detail"] = "solver: %s" % s.reason_unknown()
        res.append(d)

    # model validation against zlib (the real code calls zlib.crc32)
    rnd = random.Random(7)
    ok = True
    for _ in range(300):
        v = bytes(rnd.randrange(256) for _ in range(rnd.randrange(0, 70)))
        if crc_model_int(v) != (zlib.crc32(v) & 0xFFFFFFFF):
            ok = False
            break
    res.append({"name": "bit-serial CRC-32 model == zlib.crc32 on 300 random vectors (0..69 bytes)", "seconds": 0, "status": "discharged" if ok else "violated", "detail": "" if ok else "model differs from zlib on %r" % (v,)})
    s1, s2 = z3.BitVecs("s1 s2", 32)
    b1, b2 = z3.BitVecs("b1 b2", 1)
    prove("per-bit GF(2)-linearity: step(s1^s2, b1^b2) == step(s1,b1) ^ step(s2,b2)", [], crc_step_bit(s1 ^ s2, b1 ^ b2) == (crc_step_bit(s1, b1) ^ crc_step_bit(s2, b2)))
    prove("zero-bit step is injective at zero: s != 0 => step(s, 0) != 0 (a difference survives any number of following bits)", [s1 != 0], crc_step_bit(s1, z3.BitVecVal(0, 1)) != 0)
    for k in (1, 8, 16, 25, 32):
        bits = [z3.BitVec("e%d" % i, 1) for i in range(k)]
        st = z3.BitVecVal(0, 32)
        for b in bits:
            st = crc_step_bit(st, b)
        prove("burst of <= %d bits (transmission order) from the zero difference state leaves a non-zero difference" % k, [z3.Or(*[b == 1 for b in bits])], st != 0)
    # memory-order (MSB-first) windows of <= 25 bits and byte-aligned 32-bit windows stay within 32 consumed bits
    okm = True
    for w in range(1, 26):
        for start in range(8):
            nbytes = (start + w + 7) // 8
            if nbytes * 8 > 32 and not (w <= 25 and nbytes <= 4):
                okm = False
    res.append({"name": "every MSB-first memory-order window of <= 25 bits and every byte-aligned 32-bit window spans <= 4 bytes = <= 32 consumed bits", "seconds": 0, "status": "discharged" if okm else "violated"})
    # recorded fact (not claimed, not a finding): an unaligned 26..32-bit memory-order window can span 5 bytes (40 consumed bits)
    bits = [z3.BitVec("m%d" % i, 1) for i in range(40)]
    st = z3.BitVecVal(0, 32)
    for b in bits:
        st = crc_step_bit(st, b)
    s = z3.Solver()
    s.set("timeout", 60000)
    s.add(z3.Or(*[b == 1 for b in bits]), st == 0)
    r = s.check()
    note = "40-bit spans (unaligned 26..32-bit windows in MSB-first memory order) are NOT always detected by CRC-32 (z3: %s) -- arithmetic of CRC-32, recorded, neither claimed nor a finding" % r
    return res, note


# ------------------------------------------------------------------ obligations


def obligations(tier):
    q = tier == "quick"
    M = "harness.C12_corruption"
    obs = []

    def add(oname, fn, timeout=90, **kw):
        obs.append({"name": oname, "module": M, "fn": fn, "kwargs": kw, "timeout": timeout * 5 if q else timeout * 12})

    for n in (14, 16) if q else (14, 16, 18, 22):
        add("checksum-first arbitrary %d-byte message" % n, "b_checksum_first", timeout=150, n=n)
    for nm, which in [(1, 0), (2, 0), (2, 1), (3, 2)] + ([] if q else [(3, 1), (3, 0)]):
        add("corrupt message %d of %d in a complete set" % (which, nm), "b_corrupt_in_set", timeout=150, nmsgs=nm, which=which)
    tspecs = [[(0, "n", "1")], [(1, "1", "e"), (0, "e", "n")]] + ([] if q else [[(0, "2", "1"), (1, "n", "2"), (0, "e", "e")]])
    for spec in tspecs:
        add("truncation %r" % (spec,), "b_truncation", timeout=150, spec=spec)
    for which in ("short_bytes", "int_string"):
        for n in (8, 12) if q else (8, 12, 16, 24):
            for cur in (0, 3, n - 2, n):
                add("reader %s n=%d cur=%d" % (which, n, cur), "b_reader", which=which, n=n, cur=cur)
    for fmt, n, cur in [(">q", 8, 0), (">ihq", 16, 1), (">i", 3, 0), (">hiii", 14, 0)]:
        add("relative_unpack %s n=%d cur=%d" % (fmt, n, cur), "b_relative_unpack", fmt=fmt, n=n, cur=cur)
    sizes = {
        "produce_v0": 16, "produce_v2": 16, "offset_commit": 16, "offset_fetch": 16, "list_offsets": 16, "find_coordinator": 14,
        "heartbeat": 6, "leave_group": 6, "sync_group": 12, "join_group": 14, "protocol_metadata": 12, "api_versions": 16,
        "correlation_id": 5,
    }
    for name, n in sizes.items():
        add("arbitrary %d bytes -> %s" % (n, name), "b_arbitrary", timeout=200, name=name, n=n)
    add("arbitrary 14 bytes after a message-set header -> message_set", "b_arbitrary", timeout=200, name="message_set", n=14)
    add("arbitrary 12 bytes -> metadata (no brokers)", "b_arbitrary", timeout=200, name="metadata", n=12, prefix=struct.pack(">ii", 1, 0))
    for shape in ("metadata_brokers", "metadata_replicas", "join_members", "protocol_subscriptions", "assignment_partitions", "offsets_count", "fetch_topics", "message_size", "topic_name_length"):
        for hi in range(len(HOSTILE)):
            add("hostile %s=%d" % (shape, HOSTILE[hi]), "b_hostile_count", timeout=120, name=shape, hostile_index=hi)
    return obs


def functions():
    K = KafkaCodec
    from afkak.consumer import Consumer

    return [K._decode_message_set_iter, K._decode_message, u.read_short_bytes, u.read_int_string, u.relative_unpack, u.read_short_ascii,
            u.read_short_text, K.decode_produce_response, K.decode_fetch_response, K.decode_offset_response, K.decode_metadata_response,
            K.decode_consumermetadata_response, K.decode_offset_commit_response, K.decode_offset_fetch_response, K.decode_join_group_response,
            K.decode_sync_group_response, K.decode_join_group_protocol_metadata, K.decode_sync_group_member_assignment,
            K.decode_api_versions_response, Consumer._handle_fetch_response]


def main(tier):
    from vlib.chplug import enginea

    cres, note = engine_c(tier)
    extra = []
    for r in cres:
        if r["status"] == "violated":
            extra.append({"kind": "violation", "label": "engineC: " + r["name"][:60], "sig": r["name"], "detail": r.get("detail", ""), "reproduced": True})
        elif r["status"] != "discharged":
            extra.append({"kind": "error", "detail": "engine C lemma %r: %s" % (r["name"], r.get("detail"))})
    cov = {"engine_c": {"lemmas": cres, "obligations": len(cres), "discharged": sum(1 for r in cres if r["status"] == "discharged"), "note": note,
                        "conclusion": "model==zlib (vectors) + per-bit linearity + zero-step injectivity + burst lemma => any alteration confined to <= 32 consecutive "
                        "consumed bits changes the CRC-32 of a message of ANY length"}}
    from vlib import auxb

    extra_b, cov_b = auxb.run("harness.aux_c12_grow", tier)
    extra += extra_b
    cov.update(cov_b)
    return enginea.main(__name__, tier, extra_results=extra, extra_cov=cov)


def replay(path):
    import json

    from vlib.chplug import enginea

    v = json.load(open(path))
    if v.get("grow"):
        from vlib import auxb

        return auxb.replay("harness.aux_c12_grow", v)
    return enginea.replay_file(__name__, path)


ASSUMPTIONS = [
    "obligation 1/3/4 run with the abstract linear checksum in place of zlib.crc32 (used identically by afkak and the reference parser); what real CRC-32 detects is the engine C lemma, whose bit-serial model is validated against zlib on random vectors",
    "a 'burst' is a set of altered bits confined to <= 32 consecutive bits in the order the CRC consumes them (bytes in order, least-significant bit first); unaligned 26..32-bit windows in MSB-first memory order can span 40 consumed bits and are not claimed",
    "error-message formatting in afkak._util._buffer_underflow is replaced by BufferUnderflowError(what) (type and raise site untouched); gzip is a tagged identity",
    "time/memory proportionality is replaced by a step bound: at most 4*N+8 primitive-reader calls on an N-byte input",
    "the consumer's reaction to the fetch-size-too-small signal (grow the buffer, refetch the same offset) is decided by the buffer-growth scenario shared with C14 (engine B, symbolic buffer / maximum / message sizes)",
]

BOUNDS = {
    "arbitrary_buffers": "5..16 bytes per decoder (quick), calibrated so that CrossHair exhausts all paths; message bodies of 14..16 (quick) / ..22 bytes",
    "truncation": "message sets of 1..2 (quick) / 3 messages, every cut point",
    "hostile_values": HOSTILE,
    "crc": "messages of any length (inductive lemmas), bursts of <= 32 consumed bits",
    "outside": "peak allocation / wall-clock proportionality (replaced by the step bound); real gzip bombs (stdlib); snappy; arbitrary buffers longer than the stated sizes; decoders that build a struct format from a count on arbitrary bytes beyond the hostile classes",
}
