"""C07 -- Requests reach the responsible broker; results return in payload order.

Engine B.  The real KafkaClient (+ _KafkaBrokerClient, KafkaProtocol, bootstrap protocol and the
real codec on concrete bytes) over SimNet against SimCluster, whose brokers parse with the
reference parser and answer with the reference encoder.  Cluster layout, payload order,
per-broker behaviour, answer order and random.shuffle's permutation are symbolic choices."""
import itertools

from twisted.internet.task import Clock
from twisted.python.failure import Failure

import afkak.client as client_mod
from afkak.client import KafkaClient, _normalize_hosts
from afkak.common import (
    BrokerMetadata,
    CoordinatorNotAvailable,
    FailedPayloadsError,
    FetchRequest,
    KafkaUnavailableError,
    LeaderUnavailableError,
    Message,
    OffsetCommitRequest,
    OffsetRequest,
    PartitionUnavailableError,
    ProduceRequest,
)

from vlib.sim.cluster import SimCluster
from vlib.sim.contract import fire_next_timer, next_timer

ID = "C07"
ENGINE = "b"

REQUIRED_LABELS = [
    "each-broker-gets-exactly-its-payloads-in-one-request",
    "responses-in-payload-order",
    "failed-and-successful-account-for-every-payload-once",
    "leaderless-partition-is-an-error-not-a-send",
    "group-requests-reach-the-coordinator",
    "unaware-request-tries-connected-first-then-all-brokers-then-all-bootstrap-hosts",
    "outcome-shape-in-contract-alphabet",
]

ASSUMPTIONS = [
    "TCP replaced by SimNet; brokers are SimCluster nodes that parse with the reference parser and answer with the reference encoder",
    "metadata / coordinator lookups are answered promptly by whichever node receives them; the symbolic behaviours (answer, refuse connection, drop on request, stay silent) apply to the data requests",
    "afkak.client.random.shuffle applies a permutation chosen symbolically by the scenario",
    "layouts are canonical up to broker renaming (symmetry breaking on the leader map)",
    "payload lists name each (topic, partition) at most once (documented precondition)",
]

OUTCOME_ALPHABET = {"list", "FailedPayloadsError", "LeaderUnavailableError", "PartitionUnavailableError", "KafkaUnavailableError", "CoordinatorNotAvailable"}


class _Shuffle:
    def __init__(self, ctx, max_perms=None):
        self.ctx = ctx
        self.max_perms = max_perms

    def shuffle(self, lst):
        n = len(lst)
        if n <= 1:
            return
        perms = list(itertools.permutations(range(n)))
        if self.max_perms and len(perms) > self.max_perms:
            perms = [perms[0], perms[-1]][: self.max_perms]  # identity and reversal
        k = self.ctx.choose("shuffle%d" % n, len(perms))
        cp = list(lst)
        for i, j in enumerate(perms[k]):
            lst[i] = cp[j]


def functions():
    return [
        KafkaClient._send_broker_aware_request,
        KafkaClient._get_leader_for_partition,
        KafkaClient._get_coordinator_for_group,
        KafkaClient._send_broker_unaware_request,
        KafkaClient._send_bootstrap_request,
        KafkaClient._handle_responses,
        KafkaClient.send_produce_request,
        KafkaClient.send_fetch_request,
        KafkaClient.send_offset_request,
        KafkaClient.send_offset_commit_request,
        KafkaClient.load_metadata_for_topics,
        KafkaClient.load_coordinator_for_group,
        KafkaClient._merge_topic_metadata,
        KafkaClient._update_brokers,
        KafkaClient._make_request_to_broker,
        _normalize_hosts,
    ]


def bounds(tier):
    q = tier == "quick"
    return {
        "brokers": 3,
        "partitions": 3 if q else 4,
        "topics": 2,
        "apis": ["produce", "fetch", "list_offsets", "offset_commit (coordinator)"],
        "broker_behaviours": ["answer", "refuse connection", "drop on request", "silent until timeout"],
        "interleave_job": "4 payloads on a fixed 3-broker layout, 24 payload orders, one broker symbolic (produce, fetch)", "outside": "more brokers / payloads than stated; duplicated (topic,partition) payloads; TLS; DNS",
    }


def limits(tier):
    return {"validate": "all" if tier == "quick" else 4, "max_seconds": 900 if tier == "quick" else 3400, "split_depth": 3}


def jobs(tier):
    q = tier == "quick"
    out = []
    for api in ("produce", "produce0", "fetch", "offsets"):
        out.append({"kind": "aware", "api": api, "nb": 3, "np": 3 if q else 4})
    # four payloads on a fixed layout (t/0 and u/1 on broker 1, t/1 on broker 2, u/0 on broker 3), every payload order, brokers 1 and 2
    # answering and broker 3 behaving symbolically: responses carried by FailedPayloadsError must keep the caller's order
    for api in ("produce", "fetch"):
        out.append({"kind": "aware", "api": api, "nb": 3, "np": 4, "interleave": True})
    out.append({"kind": "coordinator", "nb": 3})
    out.append({"kind": "unaware", "nb": 2, "nboot": 2})
    return out


def scenario(job):
    if job["kind"] == "aware":
        return _aware(job)
    if job["kind"] == "coordinator":
        return _coordinator(job)
    return _unaware(job)


def _pump(ctx, cl, clock, behaviour, result, max_steps=200, hold=None):
    """Drive the network deterministically: behaviour(node) in {'answer','refuse','drop','silent'} for data requests;
    metadata-type requests are always answered.  Returns when the call resolved or nothing is left to do but wait."""
    hold = hold if hold is not None else []
    for _ in range(max_steps):
        if result:
            return
        progressed = False
        for at in cl.net.pending_attempts():
            node = cl.node_at(at.host, at.port)
            if node is not None and behaviour(node) == "refuse":
                at.refuse()
            else:
                at.establish()
            progressed = True
        for tr in cl.net.closing_transports():
            tr.drop()
            progressed = True
        for inb in cl.unanswered():
            if inb in hold:
                continue
            if inb.api in (3, 10, 18) or inb.node is None:
                cl.answer(inb)
                progressed = True
                continue
            bh = behaviour(inb.node)
            if bh == "answer" and inb.api == 0 and inb.q["body"]["acks"] == 0:
                cl.answer(inb)  # no reply is sent for acks=0: the broker just applies it
                progressed = True
            elif bh == "answer":
                hold.append(inb)  # answered later, in the order the scenario chooses
            elif bh == "drop" and not any(getattr(o, "dropped", False) for o in cl.requests if o.node == inb.node):
                inb.answered = True
                inb.dropped = True
                inb.transport.drop()  # the client reconnects and re-sends (C10); from then on the broker stays silent
                progressed = True
            elif bh == "drop":
                hold.append(inb)
                inb.silent = True
            else:
                hold.append(inb)
                inb.silent = True
        if not progressed:
            return


def _aware(job):
    api, nb, np_ = job["api"], job["nb"], job["np"]
    BH = ["answer", "refuse", "drop", "silent"]

    def run(ctx):
        clock = Clock()
        cl = SimCluster(clock)
        client_mod.random = _Shuffle(ctx)
        for n in range(nb):
            cl.add_broker(n + 1)
        tps = [("t", 0), ("t", 1), ("u", 0), ("u", 1)][:np_]
        # canonical leader map: leader[i] in {none} + brokers, new broker labels introduced in order
        used = 0
        leaders = []
        for i, tp in enumerate(tps):
            opts = list(range(0, min(used + 1, nb) + 1))  # 0 = none, 1..nb
            v = [1, 2, 3, 1][i] if job.get("interleave") else opts[ctx.choose("leader", len(opts))]
            leaders.append(v)
            used = max(used, v)
            cl.leaders[tp] = v if v != 0 else -1
        # which payloads, in which order
        k = np_ if job.get("interleave") else ctx.choose("npayloads", np_) + 1
        subset = tps[:k] if ctx.choose("subset", 2) == 0 else tps[-k:]
        perms = list(itertools.permutations(range(len(subset))))
        order = perms[ctx.choose("payload_order", len(perms))]
        targets = [subset[i] for i in order]
        if job.get("interleave"):
            # brokers 1 (two partitions) and 2 answer, broker 3 behaves symbolically: the survivors' partitions interleave in the caller's list
            bh = {1: "answer", 2: "answer", 3: BH[ctx.choose("behaviour", 4)]}
        else:
            bh = {n + 1: BH[ctx.choose("behaviour", 4)] for n in range(nb) if any(cl.leaders[tp] == n + 1 for tp in targets)}
        ctx.sig("aware api=%s" % api)
        ctx.log("layout", sorted(cl.leaders.items()), targets, sorted(bh.items()))
        client = KafkaClient("boot:9092", reactor=clock, endpoint_factory=cl.net.endpoint_factory, timeout=10000,
                             retry_policy=lambda n_: 1.0, enable_protocol_version_discovery=False)
        if api in ("produce", "produce0"):
            payloads = [ProduceRequest(t, p, [Message(0, 0, None, b"%s%d" % (t.encode(), p))]) for (t, p) in targets]
            call = lambda: client.send_produce_request(payloads, acks=(1 if api == "produce" else 0), fail_on_error=False)  # noqa: E731
            key = 0
        elif api == "fetch":
            payloads = [FetchRequest(t, p, 0, 1000) for (t, p) in targets]
            call = lambda: client.send_fetch_request(payloads, max_wait_time=100, fail_on_error=False)  # noqa: E731
            key = 1
        else:
            payloads = [OffsetRequest(t, p, -1, 1) for (t, p) in targets]
            call = lambda: client.send_offset_request(payloads, fail_on_error=False)  # noqa: E731
            key = 2
        result = []
        try:
            call().addBoth(result.append)
        except Exception as e:  # noqa
            result.append(Failure(e))
        hold = []
        _pump(ctx, cl, clock, lambda n: bh.get(n, "answer"), result, hold=hold)
        # answer the held requests of answering brokers in a symbolic order, then let silent ones time out
        ans = [i for i in hold if not getattr(i, "silent", False)]
        while ans and not result:
            i = ans.pop(ctx.choose("answer_order", len(ans))) if len(ans) > 1 else ans.pop()
            if not i.transport.closed:
                cl.answer(i)
            _pump(ctx, cl, clock, lambda n: bh.get(n, "answer"), result, hold=hold)
            ans = [x for x in hold if not getattr(x, "silent", False) and not x.answered]
        for _ in range(60):
            if result or next_timer(clock) is None:
                break
            fire_next_timer(clock)
            _pump(ctx, cl, clock, lambda n: bh.get(n, "answer"), result, hold=hold)
            for x in [x for x in hold if not getattr(x, "silent", False) and not x.answered and not x.transport.closed]:
                cl.answer(x)
        for inb in cl.unanswered():  # acks=0 requests complete on write: let the brokers that received them apply them
            if inb.api == 0 and inb.q["body"]["acks"] == 0 and inb.node is not None and bh.get(inb.node, "answer") == "answer":
                cl.answer(inb)
        ctx.check(len(result) == 1, "call-resolves", "the call did not resolve: %r" % (result,))
        if len(result) != 1:
            return
        res = result[0]
        data_reqs = [r for r in cl.requests if r.api == key]
        leaderless = [tp for tp in targets if cl.leaders[tp] == -1]
        shape = "list" if not isinstance(res, Failure) else type(res.value).__name__
        ctx.check(shape in OUTCOME_ALPHABET, "outcome-shape-in-contract-alphabet", "outcome %s" % shape)
        ctx.log("outcome", shape)
        if leaderless:
            # the payloads before the first leaderless one are only looked up; nothing may be sent
            ctx.check(isinstance(res, Failure) and res.check(LeaderUnavailableError) is not None, "leaderless-partition-is-an-error-not-a-send", "result %r" % (res,))
            ctx.check(not data_reqs, "leaderless-partition-is-an-error-not-a-send", "a data request was sent although a partition has no leader")
            return
        # ---- routing
        per_broker = {}
        for tp in targets:
            per_broker.setdefault(cl.leaders[tp], []).append(tp)
        for node, want in sorted(per_broker.items()):
            got = [r for r in data_reqs if r.node == node]
            if bh.get(node) == "refuse":
                ctx.check(not got, "each-broker-gets-exactly-its-payloads-in-one-request", "broker %d refused connections yet received a request" % node)
                continue
            # one request per broker (a broker that dropped the connection sees the same request once more on the new connection)
            expect_n = 2 if (bh.get(node) == "drop" and api != "produce0") else 1
            ctx.check(len(got) == expect_n and len({g.raw for g in got}) == 1, "each-broker-gets-exactly-its-payloads-in-one-request", "broker %d received %d requests for %r" % (node, len(got), want))
            if got:
                carried = [(t.decode(), (p[0] if isinstance(p, tuple) else p)) for (t, ps) in got[0].q["body"]["topics"] for p in ps]
                ctx.check(sorted(carried) == sorted(want), "each-broker-gets-exactly-its-payloads-in-one-request", "broker %d received %r, leads %r" % (node, carried, want))
        ctx.check(not [r for r in data_reqs if r.node not in per_broker], "each-broker-gets-exactly-its-payloads-in-one-request", "a broker leading none of the payloads received a data request")
        # ---- results
        failing = [tp for tp in targets if bh.get(cl.leaders[tp]) in ("refuse", "drop", "silent")]
        if api == "produce0":
            # acks=0: a broker that merely stays silent still received the request; failure = the request never got written
            failing = [tp for tp in targets if bh.get(cl.leaders[tp]) == "refuse"]
            if not failing:
                ctx.check(not isinstance(res, Failure) and list(res) == [], "acks0-result-is-empty-once-written", "acks=0 result %r" % (res,))
                for tp in targets:
                    ctx.check(len(cl.logs.get(tp, [])) >= 1 or bh.get(cl.leaders[tp]) in ("drop", "silent"), "acks0-messages-reach-the-leader", "%r never reached its leader" % (tp,))
            else:
                ok = isinstance(res, Failure) and res.check(FailedPayloadsError) is not None
                ctx.check(ok, "failed-and-successful-account-for-every-payload-once", "acks=0 and a broker never connected, but the result is %r" % (res,))
                if ok:
                    failed = [(p.topic, p.partition) for (p, _f) in res.value.failed_payloads]
                    ctx.check(sorted(failed) == sorted(failing) and list(res.value.responses) == [], "failed-and-successful-account-for-every-payload-once", "failed %r expected %r" % (failed, failing))
            return
        if not failing:
            ok = not isinstance(res, Failure)
            ctx.check(ok, "responses-in-payload-order", "all brokers answered but the call failed: %r" % (res,))
            if ok:
                ctx.check([(r.topic, r.partition) for r in res] == targets, "responses-in-payload-order", "responses %r, payloads %r" % ([(r.topic, r.partition) for r in res], targets))
        else:
            ok = isinstance(res, Failure) and res.check(FailedPayloadsError) is not None
            ctx.check(ok, "failed-and-successful-account-for-every-payload-once", "some brokers failed but the result is %r" % (res,))
            if ok:
                resp = [(r.topic, r.partition) for r in res.value.responses]
                failed = [(p.topic, p.partition) for (p, _f) in res.value.failed_payloads]
                ctx.check(sorted(resp + failed) == sorted(targets) and len(set(resp + failed)) == len(targets), "failed-and-successful-account-for-every-payload-once", "responses %r + failed %r vs payloads %r" % (resp, failed, targets))
                ctx.check(sorted(failed) == sorted(failing), "failed-and-successful-account-for-every-payload-once", "failed %r, expected %r" % (failed, failing))
                ctx.check(resp == [tp for tp in targets if tp in resp], "responses-in-payload-order", "partial responses out of payload order: %r" % (resp,))
                for (p, f) in res.value.failed_payloads:
                    ctx.check(isinstance(f, Failure), "failed-payload-carries-a-failure")

    return run


def _coordinator(job):
    nb = job["nb"]

    def run(ctx):
        clock = Clock()
        cl = SimCluster(clock)
        client_mod.random = _Shuffle(ctx)
        for n in range(nb):
            cl.add_broker(n + 1)
        cl.leaders[("t", 0)] = 1 + ctx.choose("leader", nb)
        coord = 1 + ctx.choose("coordinator", nb)
        cl.coordinator["grp"] = coord
        ctx.sig("coordinator")
        client = KafkaClient("boot:9092", reactor=clock, endpoint_factory=cl.net.endpoint_factory, timeout=10000,
                             retry_policy=lambda n_: 1.0, enable_protocol_version_discovery=False)
        result = []
        client.send_offset_commit_request("grp", [OffsetCommitRequest("t", 0, 41, -1, b"md")], group_generation_id=3, consumer_id="mem").addBoth(result.append)
        hold = []
        _pump(ctx, cl, clock, lambda n: "answer", result, hold=hold)
        for x in list(hold):
            cl.answer(x)
        _pump(ctx, cl, clock, lambda n: "answer", result, hold=hold)
        commits = [r for r in cl.requests if r.api == 8]
        ctx.check(len(commits) == 1 and commits[0].node == coord, "group-requests-reach-the-coordinator", "commit sent to %r, coordinator is %d" % ([r.node for r in commits], coord))
        ctx.check(len(result) == 1 and not isinstance(result[0], Failure) and [(r.topic, r.partition, r.error) for r in result[0]] == [("t", 0, 0)], "group-requests-reach-the-coordinator", repr(result))
        ctx.check(cl.commit_log == [("grp", "t", 0, 41, 3, b"mem")], "commit-carries-generation-and-member", repr(cl.commit_log))
        # offset fetch goes to the same coordinator
        res2 = []
        from afkak.common import OffsetFetchRequest

        client.send_offset_fetch_request("grp", [OffsetFetchRequest("t", 0)]).addBoth(res2.append)
        hold = []
        _pump(ctx, cl, clock, lambda n: "answer", res2, hold=hold)
        for x in list(hold):
            cl.answer(x)
        fetches = [r for r in cl.requests if r.api == 9]
        ctx.check(len(fetches) == 1 and fetches[0].node == coord, "group-requests-reach-the-coordinator", "offset fetch sent to %r" % ([r.node for r in fetches],))
        ctx.check(len(res2) == 1 and not isinstance(res2[0], Failure) and res2[0][0].offset == 41, "offset-fetch-returns-committed", repr(res2))
        # unknown coordinator -> CoordinatorNotAvailable, nothing sent
        res3 = []
        client.send_offset_commit_request("nogroup", [OffsetCommitRequest("t", 0, 1, -1, None)]).addBoth(res3.append)
        _pump(ctx, cl, clock, lambda n: "answer", res3, hold=[])
        ctx.check(len(res3) == 1 and isinstance(res3[0], Failure) and res3[0].check(CoordinatorNotAvailable) is not None, "unknown-coordinator-fails", repr(res3))
        ctx.check(len([r for r in cl.requests if r.api == 8]) == 1, "unknown-coordinator-fails", "a commit was sent without a coordinator")

    return run


def _unaware(job):
    nb, nboot = job["nb"], job["nboot"]

    def run(ctx):
        clock = Clock()
        cl = SimCluster(clock)
        client_mod.random = _Shuffle(ctx)
        for n in range(nb):
            cl.add_broker(n + 1)
        cl.leaders[("t", 0)] = 1
        hosts = ",".join("boot%d:9092" % i for i in range(nboot))
        ctx.sig("unaware")
        client = KafkaClient(hosts, reactor=clock, endpoint_factory=cl.net.endpoint_factory, timeout=5000,
                             retry_policy=lambda n_: 100.0, enable_protocol_version_discovery=False)
        # learn the brokers, then connect to exactly one of them
        r0 = []
        client.load_metadata_for_topics("t").addBoth(r0.append)
        _pump(ctx, cl, clock, lambda n: "answer", r0, hold=[])
        ctx.check(r0 == [True], "metadata-loaded", repr(r0))
        connected = 1 + ctx.choose("connected", nb)
        bc = client._get_brokerclient(connected)
        rr = []
        bc.makeRequest(9001, b"\x00\x03\x00\x00\x00\x00\x23\x29\x00\x00\x00\x00\x00\x00").addBoth(rr.append)
        for at in cl.net.pending_attempts():
            at.establish()
        for inb in cl.unanswered():
            cl.answer(inb)
        ctx.check(bc.connected(), "precondition-one-broker-connected")
        # now everything goes dark: connections are refused, the connected broker stays silent
        n_before = len(cl.net.attempts)
        seen_reqs = len(cl.requests)
        res = []
        client.load_metadata_for_topics("zzz").addBoth(res.append)
        contact = []  # order in which hosts were contacted
        for _ in range(200):
            if res:
                break
            for r in cl.requests[seen_reqs:]:
                if r.api == 3 and r.node is not None and ("req", r.node) not in contact:
                    contact.append(("req", r.node))
            for at in cl.net.pending_attempts():
                node = cl.node_at(at.host, at.port)
                contact.append(("conn", node if node is not None else at.host))
                # a bootstrap host can be unavailable in three ways: refuses the connection, accepts it and never answers
                # (the request times out), accepts it and drops it once the request has arrived
                mode = ctx.choose("bootstrap_fault", 3) if node is None else 0
                if mode == 0:
                    at.refuse()
                else:
                    tr_ = at.establish()
                    ctx.log("bootstrap-accepted", at.host, "silent" if mode == 1 else "drops")
                    if mode == 2:
                        tr_.drop()
            for tr in cl.net.closing_transports():
                tr.drop()
            if res:
                break
            if next_timer(clock) is None:
                break
            fire_next_timer(clock)
        ctx.log("contact", contact)
        ok = len(res) == 1 and isinstance(res[0], Failure) and res[0].check(KafkaUnavailableError) is not None
        ctx.check(ok, "unaware-request-tries-connected-first-then-all-brokers-then-all-bootstrap-hosts", "result %r" % (res,))
        brokers_contacted = [c[1] for c in contact if isinstance(c[1], int)]
        first_seen = []
        for b in brokers_contacted:
            if b not in first_seen:
                first_seen.append(b)
        boots = [c[1] for c in contact if not isinstance(c[1], int)]
        ctx.check(first_seen[:1] == [connected], "unaware-request-tries-connected-first-then-all-brokers-then-all-bootstrap-hosts", "connected broker %d not tried first: %r" % (connected, contact))
        ctx.check(sorted(first_seen) == list(range(1, nb + 1)), "unaware-request-tries-connected-first-then-all-brokers-then-all-bootstrap-hosts", "brokers tried: %r" % (first_seen,))
        ctx.check(sorted(set(boots)) == sorted("boot%d" % i for i in range(nboot)), "unaware-request-tries-connected-first-then-all-brokers-then-all-bootstrap-hosts", "bootstrap hosts tried: %r" % (boots,))
        if boots and brokers_contacted:
            last_broker_idx = max(i for i, c in enumerate(contact) if isinstance(c[1], int) and c[0] == "req" or (isinstance(c[1], int) and c[1] != connected and c[0] == "conn" and contact.index(c) == i))
            first_boot_idx = min(i for i, c in enumerate(contact) if not isinstance(c[1], int))
            first_contacts = {}
            for i, c in enumerate(contact):
                if isinstance(c[1], int) and c[1] not in first_contacts:
                    first_contacts[c[1]] = i
            ctx.check(max(first_contacts.values()) < first_boot_idx, "unaware-request-tries-connected-first-then-all-brokers-then-all-bootstrap-hosts", "a bootstrap host was tried before every known broker: %r" % (contact,))

    return run
