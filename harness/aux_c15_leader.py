"""C15, 'the leader obtains the partition lists before assigning' (engine B / symrun).

Real: Coordinator._join_and_sync, _ConsumerProtocol.generate_assignments, KafkaClient._load_topic_partitions,
load_metadata_for_topics, _merge_topic_metadata and the whole metadata path down to the bytes (SimCluster answers
Metadata requests from its *current* partition map).  Stand-ins: coordinator lookup and the group requests
(JoinGroup answered by the scenario with a symbolic choice of member subscriptions, SyncGroup captured).
Between generations the cluster's partition map changes (symbolic choice of topic and of grow/shrink); the
assignment the leader sends in each generation must cover the partitions the cluster has *then*."""
from twisted.internet.defer import Deferred, succeed
from twisted.internet.task import Clock
from twisted.python.failure import Failure

import afkak.client as client_mod
from afkak._group import Coordinator
from afkak.client import KafkaClient
from afkak.common import (BrokerMetadata, RebalanceInProgress, _HeartbeatRequest, _HeartbeatResponse, _JoinGroupRequest, _JoinGroupResponse,
                          _JoinGroupResponseMember, _LeaveGroupRequest, _LeaveGroupResponse, _SyncGroupRequest, _SyncGroupResponse)

from harness.C07_routing import _pump, _Shuffle
from vlib.ref import kafka_ref as ref
from vlib.sim.cluster import SimCluster
from vlib.sim.contract import fire_next_timer, next_timer

TAG = "leader"
PREFIX = "leader"
REQUIRED = ["leader-assignment-covers-current-partitions-exactly-once", "only-subscribed-members-get-a-topic", "leader-reaches-sync"]
NOTE = "real KafkaClient metadata path + real Coordinator/_ConsumerProtocol; cluster partition map changes between generations"

SUBS = [
    # member -> topics ; m-1 is always this client (the leader), subscribed to 'own' only
    {"m-1": ["own"], "m-2": ["other"], "m-3": ["own", "other"]},
    {"m-1": ["own"], "m-2": ["own", "other"]},
    {"m-1": ["own"], "m-2": ["other"]},
]


def jobs(tier):
    return [{"generations": 2 if tier == "quick" else 3, "topic_error": True}]


def scenario(job):
    def run(ctx):
        clock = Clock()
        cl = SimCluster(clock)
        client_mod.random = _Shuffle(ctx, max_perms=1)
        for n in (1, 2):
            cl.add_broker(n)
        parts = {"own": [0, 1, 4], "other": [3, 7]}

        def publish():
            for k in [k for k in cl.leaders]:
                del cl.leaders[k]
            for t, ps in parts.items():
                for p in ps:
                    cl.leaders[(t, p)] = 1 + p % 2

        publish()
        group_reqs = []  # [kind, payload, Deferred]

        class LeaderClient(KafkaClient):
            def _get_coordinator_for_group(self, group):
                return succeed(BrokerMetadata(1, "b1", 9093))

            def _send_request_to_coordinator(self, group, payload, encoder_fn, decode_fn, **kw):
                kind = {_JoinGroupRequest: "join", _SyncGroupRequest: "sync", _HeartbeatRequest: "heartbeat", _LeaveGroupRequest: "leave"}[type(payload)]
                d = Deferred()
                group_reqs.append([kind, payload, d])
                return d

        client = LeaderClient("boot:9092", reactor=clock, endpoint_factory=cl.net.endpoint_factory, timeout=10000,
                              enable_protocol_version_discovery=False)
        co = Coordinator(client, "grp", ["own"], retry_backoff_ms=100)
        ctx.sig("leader generations=%d" % job["generations"])
        start_res = []
        co.start().addBoth(start_res.append)

        def net():
            _pump(ctx, cl, clock, lambda n: "answer", [], hold=[])
            # a transient topic-level error ("leader not available" right after the topic was created) clears once it has
            # been reported to the client
            if cl.topic_errors.get("other") and any(x.api == 3 and x.answered and b"other" in x.q["body"]["topics"] for x in cl.requests[err_from[0]:]):
                ctx.log("topic-error-clears")
                del cl.topic_errors["other"]

        err_from = [0]

        def take(kind):
            for _ in range(12):
                net()
                hit = [g for g in group_reqs if g[0] == kind]
                if hit:
                    group_reqs.remove(hit[0])
                    return hit[0]
                if next_timer(clock) is None:
                    break
                fire_next_timer(clock)
            return None

        gen = 0
        for round_ in range(job["generations"]):
            gen += 1
            j = take("join")
            ctx.check(j is not None, "leader-reaches-sync", "generation %d: no JoinGroup was sent" % gen)
            if j is None:
                return
            subs = SUBS[ctx.choose("subscriptions", len(SUBS))]
            members = [_JoinGroupResponseMember(m, ref.enc_consumer_protocol_metadata(0, [t.encode() for t in ts], b"")) for m, ts in sorted(subs.items())]
            if job.get("topic_error") and ctx.choose("other_topic_error", 2) == 1:
                # the leader's partition lookup will find one of the topics in error while the others load fine
                cl.topic_errors["other"] = 5
                err_from[0] = len(cl.requests)
                ctx.log("topic-error-set")
            ctx.log("join-answered", gen, sorted(subs.items()), sorted(parts.items()))
            j[2].callback(_JoinGroupResponse(0, gen, "consumer", "m-1", "m-1", members))
            s = take("sync")
            ctx.check(s is not None, "leader-reaches-sync", "generation %d: the leader sent no SyncGroup" % gen)
            if s is None:
                return
            owners = {}
            mine = b""
            for a in s[1].group_assignment:
                try:
                    dec = ref.parse_consumer_assignment(bytes(a.member_metadata))
                except ref.ParseError as e:
                    ctx.check(False, "leader-assignment-covers-current-partitions-exactly-once", "assignment of %s does not parse: %s" % (a.member_id, e))
                    return
                if a.member_id == "m-1":
                    mine = a.member_metadata
                for (t, ps) in dec["topics"]:
                    t = t.decode()
                    ctx.check(t in subs.get(a.member_id, []), "only-subscribed-members-get-a-topic", "%s is given %s but subscribed to %r" % (a.member_id, t, subs.get(a.member_id)))
                    for p in ps:
                        owners.setdefault((t, p), []).append(a.member_id)
            wanted = {(t, p) for t in {t for ts in subs.values() for t in ts} for p in parts[t]}
            bad = sorted((tp, owners.get(tp, [])) for tp in wanted if len(owners.get(tp, [])) != 1)
            extra = sorted(tp for tp in owners if tp not in wanted)
            ctx.check(not bad and not extra, "leader-assignment-covers-current-partitions-exactly-once",
                      "generation %d: cluster has %r; not assigned exactly once: %r; assigned but not in the cluster: %r" % (gen, sorted(parts.items()), bad, extra))
            s[2].callback(_SyncGroupResponse(0, mine))
            if round_ + 1 == job["generations"]:
                break
            # the cluster changes
            t = ("own", "other")[ctx.choose("changed_topic", 2)]
            how = ctx.choose("change", 3)
            if how == 0:
                parts[t] = parts[t] + [max(parts[t]) + 1, max(parts[t]) + 5]
            elif how == 1 and len(parts[t]) > 1:  # (a topic never loses its last partition: it would cease to exist)
                parts[t] = parts[t][1:]
            ctx.log("cluster-change", t, how, sorted(parts.items()))
            publish()
            # the coordinator announces a rebalance on the next heartbeat
            h = take("heartbeat")
            ctx.check(h is not None, "leader-reaches-sync", "generation %d: no heartbeat after a successful sync" % gen)
            if h is None:
                return
            h[2].errback(Failure(RebalanceInProgress()))
        ctx.log("end", gen)

    return run
