"""C04, version selection part (engine B / symrun).

Real: KafkaClient.get_api_version, fetch_api_versions, _handle_api_version_update,
send_produce_request / send_fetch_request (encoder + decoder pairing),
KafkaCodec.encode_api_versions_request / decode_api_versions_response and the produce/fetch
codecs.  Stand-ins: _send_broker_unaware_request (answers the ApiVersions request) and
_send_broker_aware_request (records the encoder/decoder it is handed, parses the request with
the reference parser and feeds the decoder a reference-encoded reply of the header's version).
"""
import logging
import multiprocessing as mp
import time

from twisted.internet.defer import Deferred, fail, succeed
from twisted.internet.task import Clock
from twisted.python.failure import Failure

from afkak.client import KafkaClient
from afkak.common import FetchRequest, KafkaUnavailableError, Message, ProduceRequest
from afkak.kafkacodec import KafkaCodec

from vlib.ref import kafka_ref as ref
from vlib.symrun import Explorer

PERMS5 = None


def _perms(n):
    import itertools

    return list(itertools.permutations(range(n)))


def scenario(job):
    if job.get("mode") == "group":
        # the request objects the real Coordinator / ConsumerGroup / Consumer build on every path of the group protocol
        # (including the re-joins after each error reply) are encoded by the real codec and parsed by the reference
        from vlib.sim.group_world import make_scenario

        return make_scenario(job, {"wire"})
    def run(ctx):
        clock = Clock()
        client = KafkaClient("h:9092", reactor=clock, enable_protocol_version_discovery=True)
        mode = job["mode"]  # 'table' | 'error' | 'silent'
        pmax = (2, 3, 9, 11)[ctx.choose("produce_max", 4)]
        fmax = (2, 3, 9, 11)[ctx.choose("fetch_max", 4)]
        rows = [(0, 0, pmax), (1, 0, fmax), (3, 0, (1, 5)[ctx.choose("meta_max", 2)]), (18, 0, (0, 3)[ctx.choose("apiv_max", 2)]), (2, 0, 1)]
        if job.get("drop"):
            rows = rows[:4]
        perms = _perms(len(rows))
        order = perms[ctx.choose("order", len(perms))] if job["permute"] else tuple(range(len(rows)))
        table = [rows[i] for i in order]
        ctx.sig("mode=%s permute=%s drop=%s" % (mode, job["permute"], job.get("drop")))
        ctx.log("table", table)
        calls = {"unaware": 0}

        def fake_unaware(request_id, request):
            calls["unaware"] += 1
            try:
                q = ref.parse_request(request)
                ok = q["api_key"] == 18 and q["api_version"] == 0
            except ref.ParseError as e:
                ok = False
                ctx.check(False, "api-versions-request-conforms", "reference parser rejects the ApiVersions request: %s" % e)
            else:
                # the id the request is registered under (and by which the reply will be matched) is the id in its header
                ctx.check(q["correlation_id"] == request_id, "header-correlation-id-is-the-registered-id",
                          "ApiVersions attempt %d: registered under id %r, header carries %r" % (calls["unaware"], request_id, q["correlation_id"]))
            if mode == "silent" or (mode == "flaky" and calls["unaware"] == 1):
                return fail(Failure(KafkaUnavailableError("no broker")))
            corr = request_id
            if mode == "error":
                return succeed(ref.resp_api_versions(corr, 35, []))
            if mode == "error-with-table":
                # discovery fails with an error code although the reply lists versions: that is still a failed discovery
                return succeed(ref.resp_api_versions(corr, 35, table))
            return succeed(ref.resp_api_versions(corr, 0, table))

        seen = {}

        def fake_aware(payloads, encoder_fn, decode_fn, consumer_group=None, api_version=None):
            data = encoder_fn(client_id=b"cid", correlation_id=77, payloads=payloads)
            try:
                q = ref.parse_request(data)
            except ref.ParseError as e:
                ctx.check(False, "request-parses-under-header-version", "reference parser: %s" % e)
                return succeed([])
            key, v = q["api_key"], q["api_version"]
            seen[key] = v
            ctx.log("request", key, v)
            row = [r for r in table if r[0] == key]
            ctx.check(v in (0, 2), "version-is-one-the-client-implements", "api %d sent as v%d" % (key, v))
            if mode in ("table", "flaky"):
                ctx.check(bool(row) and row[0][1] <= v <= row[0][2], "version-is-advertised-for-that-api", "api %d sent as v%d, broker advertised %r" % (key, v, row))
            else:
                ctx.check(v == 0, "fallback-to-version-0-when-discovery-fails", "api %d sent as v%d after failed discovery" % (key, v))
            # the reply decoder must be the one for the header's version
            if key == 0:
                reply = ref.resp_produce(77, v, [(b"t", [(0, 0, 1234, 99)])], 5)
                try:
                    got = list(decode_fn(reply))
                    ok = len(got) == 1 and got[0].topic == "t" and got[0].partition == 0 and got[0].error == 0 and got[0].offset == 1234
                except Exception as e:  # noqa
                    ok = False
                    got = repr(e)
                ctx.check(ok, "matching-decoder-used-for-the-reply", "produce v%d reply decoded as %r" % (v, got))
                return succeed(got if ok else [])
            if key == 1:
                ms = ref.encode_message_set([(5, ref.encode_message(0, 0, None, b"x"))])
                reply = ref.resp_fetch(77, v, [(b"t", [(0, 0, 6, ms)])], 3)
                try:
                    got = list(decode_fn(reply))
                    msgs = list(got[0].messages)
                    ok = len(got) == 1 and got[0].partition == 0 and got[0].highwaterMark == 6 and len(msgs) == 1 and msgs[0].offset == 5 and msgs[0].message.value == b"x"
                except Exception as e:  # noqa
                    ok = False
                    got = repr(e)
                ctx.check(ok, "matching-decoder-used-for-the-reply", "fetch v%d reply decoded as %r" % (v, got))
                return succeed([])
            return succeed([])

        client._send_broker_unaware_request = fake_unaware
        client._send_broker_aware_request = fake_aware
        res = []
        try:
            client.send_produce_request([ProduceRequest("t", 0, [Message(0, 0, None, b"v")])], acks=1).addBoth(res.append)
            client.send_fetch_request([FetchRequest("t", 0, 5, 100)], max_wait_time=100).addBoth(res.append)
        except Exception as e:  # noqa
            ctx.check(False, "no-exception-from-send", repr(e))
            return
        for r in res:
            if isinstance(r, Failure):
                ctx.check(False, "send-does-not-fail-on-a-valid-table", "%r" % (r.value,))
        ctx.check(0 in seen and 1 in seen, "both-requests-issued", repr(seen))
        if mode == "silent":
            ctx.check(calls["unaware"] == 3, "discovery-retried-three-times", "%d attempts" % calls["unaware"])
        ctx.log("end", sorted(seen.items()))

    return run


def _job(job):
    logging.disable(logging.CRITICAL)
    ex = Explorer(scenario(job), validate=3, max_seconds=900).run()
    st = ex.stats
    return {
        "job": job,
        "paths": st.paths,
        "decisions": st.decisions,
        "validated": st.validated,
        "queries": st.queries,
        "solver_s": st.solver_s,
        "errors": ex.errors + ([] if ex.complete else ["not exhausted"]),
        "violations": [dict(v.to_json(), job=job) for v in ex.violations],
        "checks": st.checks,
        "sample": ex.samples[:1],
    }


def jobs(tier):
    out = [
        {"mode": "table", "permute": False},
        {"mode": "table", "permute": True},
        {"mode": "table", "permute": True, "drop": True},
        {"mode": "error", "permute": False},
        {"mode": "silent", "permute": False},
        {"mode": "flaky", "permute": False},
        {"mode": "error-with-table", "permute": False},  # the first discovery attempt finds no broker, the second is answered
    ]
    q = tier == "quick"
    out += [
        {"mode": "group", "K": 5, "faults": 2, "leader": True, "stop": True},
        {"mode": "group", "K": 5, "faults": 2, "leader": False, "stop": True},
        {"mode": "group", "K": 4, "faults": 2, "leader": False, "stop": True, "prefix": "stable-commit-hb", "autocommit": True},
        {"mode": "group", "K": 4, "faults": 2, "leader": False, "stop": True, "prefix": "rejoin-with-hb-pending", "autocommit": True},
    ]
    return out


REQUIRED = [
    "version-is-one-the-client-implements",
    "version-is-advertised-for-that-api",
    "fallback-to-version-0-when-discovery-fails",
    "matching-decoder-used-for-the-reply",
    "discovery-retried-three-times",
    "header-correlation-id-is-the-registered-id",
    "state-machine-requests-conform-on-the-wire",
]


def run(tier):
    js = jobs(tier)
    with mp.get_context("fork").Pool(len(js)) as pool:
        rs = pool.map(_job, js)
    extra = []
    checks = {}
    paths = decisions = validated = queries = 0
    for r in rs:
        for e in r["errors"]:
            extra.append({"kind": "error", "detail": "version selection %r: %s" % (r["job"], e)})
        for v in r["violations"]:
            extra.append(
                {
                    "kind": "violation",
                    "label": "versions: " + v["label"],
                    "sig": v["sig"],
                    "detail": v["detail"],
                    "reproduced": v["reproduced"],
                    "versions": True,
                    "job": v["job"],
                    "model": v["model"],
                    "choices": v["choices"],
                }
            )
        paths += r["paths"]
        decisions += r["decisions"]
        validated += r["validated"]
        queries += r["queries"]
        for k, c in r["checks"].items():
            checks[k] = checks.get(k, 0) + c[0]
    for lbl in REQUIRED:
        if not checks.get(lbl):
            extra.append({"kind": "error", "detail": "vacuity: version-selection monitor %r never evaluated" % lbl})
    cov = {
        "version_selection": {
            "engine": "symrun",
            "paths": paths,
            "decisions": decisions,
            "traces_validated_against_impl": validated,
            "solver_queries": queries,
            "monitors": checks,
            "symbolic_data_vars": [],
            "note": "the advertised table is a finite-domain symbolic choice (permutation x maxima); exhaustive within the bound",
            "sample": rs[1]["sample"],
        }
    }
    return extra, cov


def replay(v):
    from vlib.symrun import ConcCtx
    from vlib.symrun import core

    c = ConcCtx(v["model"], v["choices"])
    core._CTX = c
    try:
        scenario(v["job"])(c)
    finally:
        core._CTX = None
    for e in c.events:
        print("  ", e)
    lbl = v["label"].replace("versions: ", "")
    if any(x[0] == lbl for x in c.failed):
        print("REPRODUCED property=C04 label=%s" % v["label"])
        return 1
    print("not reproduced", c.failed)
    return 0
