"""C17 -- A started group member always progresses toward stable membership.  Engine B."""
from afkak._group import ConsumerGroup, Coordinator

from vlib.sim.group_world import make_scenario

ID = "C17"
ENGINE = "b"

REQUIRED_LABELS = [
    "never-idle",
    "retriable-error-schedules-rejoin",
    "rejoin-after-documented-backoff",
    "non-kafka-error-surfaces-on-start-deferred",
    "rejoins-within-bounded-time-once-faults-cease",
    "partitions-consumed-again",
]

ASSUMPTIONS = [
    "same world as C16; a failure of any kind can be injected at every step of the join protocol (coordinator lookup, topic metadata load, "
    "join, the leader's partition lookup, sync, heartbeat, consumer commit) within the fault budget, then faults cease",
    "'never idle' is observed after every event as: a join-protocol request in flight, or stable with the heartbeat timer running, or a "
    "delayed join_and_sync call pending, or the start() Deferred fired (reads Coordinator._rejoin_needed/_rejoin_d/_heartbeat_looper)",
    "bounded liveness: after faults cease, with a prompt coordinator, stability is reached within fatal_backoff + 35 s of virtual time",
]


def functions():
    return [
        Coordinator.get_coordinator_broker, Coordinator.rejoin_after_error, Coordinator.join_and_sync, Coordinator._join_and_sync,
        Coordinator._handle_heartbeat_failure, Coordinator._heartbeat, Coordinator.reset_heartbeat_timer, ConsumerGroup.on_consumer_error,
    ]


def bounds(tier):
    q = tier == "quick"
    return {"script_events": "6 from a fresh start, 5 after a prefix" if q else "7 / 6", "fault_budget": 2, "settling_horizon_s": 45.0,
            "outside": "unbounded fault sequences; liveness in wall-clock time"}


def limits(tier):
    return {"validate": 3 if tier == "quick" else 7, "max_seconds": 900 if tier == "quick" else 3400, "split_depth": 7}


def jobs(tier):
    q = tier == "quick"
    out = [
        {"K": 6 if q else 7, "faults": 2, "leader": True, "stop": False},
        {"K": 6 if q else 7, "faults": 2, "leader": False, "stop": False},
    ]
    # deep states reached by concrete prefixes, then a symbolic suffix
    for prefix, ac in (("stable", False), ("stable-hb", False), ("stable-commit-hb", True), ("rejoin-with-hb-pending", True)):
        out.append({"K": 5 if q else 6, "faults": 2, "leader": False, "stop": False, "prefix": prefix, "autocommit": ac})
    # a retry back-off of zero (a legal setting): the rejoin must still happen
    out.append({"K": 5 if q else 6, "faults": 2, "leader": False, "stop": False, "retry_s": 0.0})
    out.append({"kind": "leader", "generations": 2 if q else 3, "topic_error": True})
    return out


def scenario(job):
    if job.get("kind") == "leader":
        # the leader's partition lookup on the real client (metadata path down to the bytes, simulated brokers), with a
        # transient topic-level error on one of the topics: the member must still get to its SyncGroup
        from harness.aux_c15_leader import scenario as leader

        return leader(job)
    return make_scenario(job, {"progress"})
