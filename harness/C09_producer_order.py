"""C09 -- Per-partition send order is preserved and retries are disciplined.  Engine B."""
from afkak.common import CODEC_NONE
from afkak.kafkacodec import create_message_set
from afkak.producer import Producer

from vlib.sim.producer_world import make_scenario

ID = "C09"
ENGINE = "b"

REQUIRED_LABELS = [
    "per-partition-submission-order",
    "each-message-in-exactly-one-payload-per-attempt",
    "one-produce-request-in-flight",
    "acknowledged-payload-never-resent",
    "only-failed-payloads-retried",
    "all-failed-payloads-retried",
    "retry-delay-geometric",
    "attempts-bounded-by-maximum",
    "each-send-dispatched-in-one-batch",
    "retry-carries-the-same-messages",
]

ASSUMPTIONS = [
    "KafkaClient replaced by ContractClient (see C01); the monitor observes the sequence of send_produce_request calls",
    "retry interval is a concrete float (0.25 or 1.0); the oracle recomputes interval*1.20205^k with the same float operations",
    "whether a produce request is a retry or a new batch is decided from the previous outcome and the (symbolic) attempt limit",
    "reactor = twisted Clock stepped to the next due timer; logging disabled",
]


def functions():
    return [
        Producer._send_batch,
        Producer._send_requests,
        Producer._handle_send_response,
        Producer._complete_batch_send,
        Producer._check_send_batch,
        Producer._next_partition,
        create_message_set,
    ]


def bounds(tier):
    q = tier == "quick"
    return {
        "script_events": 6 if q else 7,
        "sends": 3,
        "partitions_of_t": 2,
        "max_req_attempts": "SymInt in [1,4]",
        "fault_budget": 3,
        "retry_interval": [0.25, 1.0],
        "batching": ["off", "every_n=2", "every_t=5s with retry interval 6s (1 and 2 partitions)"],
        "outside": "more than 2 partitions / 4 sends; the network below the client contract",
    }


def limits(tier):
    return {"validate": "all" if tier == "quick" else 5, "max_seconds": 900 if tier == "quick" else 3400}


def jobs(tier):
    q = tier == "quick"
    out = []
    for batch in (False, True):
        for interval in (0.25, 1.0):
            for acks in (1,) if q else (1, -1):
                out.append(
                    {
                        "acks": acks,
                        "batch": batch,
                        "batch_n": 2,
                        "batch_b": 0,
                        "batch_t": 0,
                        "codec": CODEC_NONE,
                        "api": 0,
                        "K": 6 if q else 7,
                        "sends": 3,
                        "faults": 3,
                        "max_attempts": 4,
                        "interval": interval,
                        "two_topics": False,
                        "cancel": False,
                        "stop": False,
                        "variants": 1,
                        "errcodes": 2,
                    }
                )
    # the client may answer synchronously (an already-fired Deferred), so the producer's handlers re-enter
    for batch in (False, True):
        out.append({"acks": 1, "batch": batch, "batch_n": 2, "batch_b": 0, "batch_t": 0, "codec": CODEC_NONE, "api": 0,
                    "K": 5 if q else 6, "sends": 2 if q else 3, "faults": 3, "max_attempts": 3, "interval": 0.25,
                    "two_topics": False, "cancel": False, "stop": False, "variants": 1, "errcodes": 1, "sync": True})
    # a second topic whose metadata cannot be obtained, and cancellation of queued / dispatched sends: an unroutable or cancelled
    # send must not take the rest of its batch with it, nor let a later batch overtake
    out.append({"acks": 1, "batch": True, "batch_n": 2, "batch_b": 0, "batch_t": 0, "codec": CODEC_NONE, "api": 0,
                "K": 6 if q else 7, "sends": 3, "faults": 2, "max_attempts": 2, "interval": 0.25,
                "two_topics": True, "cancel": True, "stop": False, "variants": 1, "errcodes": 1})
    # the application resubmits from a result handler (the common resend-on-error pattern): the resubmission must queue behind
    # the batch that is still being wound up, not overtake it
    for batch in (False, True):
        out.append({"acks": 1, "batch": batch, "batch_n": 2, "batch_b": 0, "batch_t": 0, "codec": CODEC_NONE, "api": 0,
                    "K": 6 if q else 7, "sends": 3, "faults": 3, "max_attempts": 2, "interval": 0.25,
                    "two_topics": False, "cancel": False, "stop": False, "variants": 1, "errcodes": 1, "resend": True})
    # time-triggered batching: ticks of the batch timer interleave with unresolved batches and their retry timers
    for parts in (1, 2):
        out.append(
            {
                "acks": 1,
                "batch": True,
                "batch_n": 50,
                "batch_b": 0,
                "batch_t": 5,
                "codec": CODEC_NONE,
                "api": 0,
                "K": 7 if q else 8,
                "sends": 3,
                "faults": 2,
                "max_attempts": 4,
                "interval": 6.0,
                "two_topics": False,
                "cancel": False,
                "stop": False,
                "variants": 1,
                "errcodes": 1,
                "parts": parts,
            }
        )
    return out


def scenario(job):
    return make_scenario(job, {"order"})
