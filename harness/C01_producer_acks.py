"""C01 -- Producer acknowledgements are truthful and fire exactly once.  Engine B."""
from afkak.common import CODEC_GZIP, CODEC_NONE
from afkak.kafkacodec import create_message_set
from afkak.producer import Producer

from vlib.sim.producer_world import make_scenario

ID = "C01"
ENGINE = "b"

REQUIRED_LABELS = [
    "fires-exactly-once",
    "success-value-is-error-free-response",
    "success-only-if-leader-acknowledged-those-messages",
    "acks0-succeeds-with-no-value",
    "acks0-success-only-after-handover",
    "stop-fails-every-outstanding-send",
    "cancel-fails-the-send-at-once",
]

ASSUMPTIONS = [
    "KafkaClient replaced by ContractClient: send_produce_request(fail_on_error=False) returns a pending Deferred which the script resolves "
    "with a list of ProduceResponse (error code 0 or one of 6,10,3,7,999 per payload), FailedPayloadsError(responses, failed payloads), "
    "LeaderUnavailableError, a non-Kafka failure, or [] (alphabet cross-checked against the real client by C07)",
    "topic 't' is known with 2 partitions; topic 'u' needs a metadata load which the script answers (ok / still unknown)",
    "RoundRobinPartitioner with fixed start (HashedPartitioner: C18); snappy absent",
    "each send carries messages that make its (key, value) sequence unique, so payload contents can be attributed to sends",
    "reactor = twisted Clock stepped to the next due timer; logging disabled",
]


def functions():
    return [
        Producer.send_messages,
        Producer._send_batch,
        Producer._next_partition,
        Producer._send_requests,
        Producer._handle_send_response,
        Producer._cancel_send_messages,
        Producer._complete_batch_send,
        Producer._check_send_batch,
        Producer.stop,
        Producer._cancel_outstanding,
        create_message_set,
    ]


def bounds(tier):
    q = tier == "quick"
    return {
        "script_events": 5 if q else 6,
        "sends": 2,
        "partitions_of_t": 2,
        "max_req_attempts": "SymInt in [1,3]",
        "fault_budget": 2 if q else 3,
        "acks": [0, 1, -1],
        "batching": ["off", "every_n=2"],
        "codec": ["none", "gzip"],
        "message_format": ["api_versions=0 (magic 0)", "api_versions table (magic 1)"],
        "ack_offsets": "SymInt in [0,2^62]",
        "outside": "real network below the client contract (C06/C07/C10/C11); HashedPartitioner (C18); snappy; >3 sends",
    }


def limits(tier):
    return {"validate": "all" if tier == "quick" else 5, "max_seconds": 900 if tier == "quick" else 3400}


def jobs(tier):
    q = tier == "quick"
    out = []
    for acks in (1, 0, -1):
        for batch in (False, True):
            for codec in (CODEC_NONE, CODEC_GZIP):
                for api in (0, "table"):
                    if q and (codec == CODEC_GZIP) != (api == "table"):
                        continue  # quick: pair gzip with magic 1 and none with magic 0
                    if q and acks == -1 and batch:
                        continue
                    out.append(
                        {
                            "acks": acks,
                            "batch": batch,
                            "batch_n": 2,
                            "batch_b": 0,
                            "batch_t": 0,
                            "codec": codec,
                            "api": api,
                            "K": 5 if q else 6,
                            "sends": 2,
                            "faults": 2 if q else 3,
                            "max_attempts": 3,
                            "two_topics": True,
                            "cancel": True,
                            "stop": True,
                            "variants": 2,
                            "errcodes": 2,
                        }
                    )
    # the producer composed with the real client, connections and codec against simulated brokers
    for acks in (1, 0, -1):
        for batch in (False, True):
            if q and acks == -1:
                continue
            out.append({"kind": "e2e", "acks": acks, "batch": batch, "codec": CODEC_GZIP if batch else CODEC_NONE, "third": batch})
    # the application stops the producer at a symbolic point of the exchange
    out.append({"kind": "e2e", "acks": 1, "batch": False, "codec": CODEC_NONE, "third": False, "stop": True})
    return out


def scenario(job):
    if job.get("kind") == "e2e":
        from vlib.sim.producer_e2e import make_scenario as e2e

        return e2e(job)
    return make_scenario(job, {"ack"})
